#!/bin/sh
# usage: tools/with_patch.sh <patch.diff> <command...>
# Runs <command> with VERIF_REPO pointing at a scratch worktree of /repo HEAD
# with the patch applied; the worktree is removed afterwards.
set -e
PATCH="$(realpath "$1")"; shift
D=$(mktemp -d /tmp/xdv-mut-XXXXXX)
rmdir "$D"
git -C /repo worktree add --detach "$D" HEAD >/dev/null 2>&1
trap 'git -C /repo worktree remove --force "$D" >/dev/null 2>&1 || rm -rf "$D"' EXIT
git -C "$D" apply "$PATCH"
VERIF_REPO="$D" "$@"
