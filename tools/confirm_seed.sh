#!/bin/sh
# usage: tools/confirm_seed.sh <dir with patch.diff demo.py meta.json> <out.json>
# Confirms a seeded change independently: applies in a scratch worktree, runs
# the demo on both trees, runs the full existing test suite on the changed tree.
SRC="$(realpath "$1")"; OUT="$2"
D=$(mktemp -d /tmp/xdv-seed-XXXXXX); rmdir "$D"
git -C /repo worktree add --detach "$D" HEAD >/dev/null 2>&1 || { echo "worktree failed"; exit 2; }
trap 'git -C /repo worktree remove --force "$D" >/dev/null 2>&1 || rm -rf "$D"' EXIT
if ! git -C "$D" apply "$SRC/patch.diff"; then echo '{"applies": false}' > "$OUT"; exit 1; fi
(cd /tmp && PYTHONPATH=/repo/src /venv/bin/python "$SRC/demo.py" >/dev/null 2>&1); BASE=$?
(cd /tmp && PYTHONPATH="$D/src" /venv/bin/python "$SRC/demo.py" > "$OUT.demo.txt" 2>&1); MUT=$?
(cd "$D" && PYTHONPATH="$D/src" /venv/bin/python -m pytest -q -p no:cacheprovider --timeout=900 \
   --deselect tests/test_entry_point.py::test_xdoc_console_script_exec --deselect tests/test_entry_point.py::test_xdoc_console_script_location \
   2>&1 | tail -3 > "$OUT.suite.txt")
SUITE=$(grep -E "passed|failed|error" "$OUT.suite.txt" | tail -1)
printf '{"applies": true, "demo_exit_unchanged": %s, "demo_exit_changed": %s, "suite": "%s"}\n' "$BASE" "$MUT" "$SUITE" > "$OUT"
cat "$OUT"
