#!/usr/bin/env python3
"""renders seeded/MATRIX.json + the seeds' meta.json as the markdown table of DESIGN.md section 10"""
import json, os
M = json.load(open('/verif/seeded/MATRIX.json'))
rows = []
for seed in sorted(M):
    meta = json.load(open('/verif/seeded/%s/meta.json' % seed))
    summ = (meta.get('summary') or '').replace('\n', ' ').replace('|', '/')
    if len(summ) > 150:
        summ = summ[:147] + '...'
    res = ', '.join('%s: %s' % (c, r) for c, r in sorted(M[seed].items()))
    rows.append('| %s | %s | %s |' % (seed, summ, res))
print('| seed | change | result of the quick checks |')
print('|---|---|---|')
print('\n'.join(rows))
caught = sum(1 for s in M if any(r == 'VIOLATION' for r in M[s].values()))
print('\n%d of %d seeds are reported as VIOLATION by at least one check.' % (caught, len(M)))
