HOOK_COMMITS = []
NOTES = ('Every check is `./check <ID> --tier quick|thorough` (sh wrapper -> sea.cli). Exit 0 held / 1 VIOLATION (replayed) / '
         '2 inconclusive / 3 harness error. Checks read the source of $VERIF_REPO (default /repo) at import time in fresh worker '
         'processes; nothing is cached. Known findings: /verif/known_findings.json.')
_PENDING = 'check not built yet in this round (design in DESIGN.md section 5); not claimed until it runs'
CHECKS = {
    'C06': {
        'text': 'Bounded symbolic model checking of the real checker._check_match/_ellipsis_match (incl. the re.split on the pattern in the source): for ALL ASCII got/want within the length bounds and both ELLIPSIS settings the result equals a declarative wildcard dynamic programme; the path tree is exhausted and each path discharged by z3. Nothing is claimed beyond the bounds.',
        'note': 'Trusted: the bounded string/regex models (validated against CPython on every run: re.split model on ~8000 strings, the DP against an independent recursive matcher), z3. ASCII 1..127 only. Normalisation before matching belongs to C05.',
    },
}
NOT_APPLICABLE = {('C%02d' % i): _PENDING for i in range(1, 21)}
