HOOK_COMMITS = []
NOTES = ('Every check is `./check <ID> --tier quick|thorough` (sh wrapper -> sea.cli). Exit 0 held / 1 VIOLATION (replayed) / '
         '2 inconclusive / 3 harness error. Checks read the source of $VERIF_REPO (default /repo) at import time in fresh worker '
         'processes; nothing is cached. Known findings: /verif/known_findings.json.')
_PENDING = 'check not built yet in this round (design in DESIGN.md section 5); not claimed until it runs'
CHECKS = {
    'C06': {
        'text': 'Bounded symbolic model checking of the real checker._check_match/_ellipsis_match (incl. the re.split on the pattern in the source): for ALL ASCII got/want within the length bounds and both ELLIPSIS settings the result equals a declarative wildcard dynamic programme; the path tree is exhausted and each path discharged by z3. Nothing is claimed beyond the bounds.',
        'note': 'Trusted: the bounded string/regex models (validated against CPython on every run: re.split model on ~8000 strings, the DP against an independent recursive matcher), z3. ASCII 1..127 only. Normalisation before matching belongs to C05.',
    },
}
CHECKS['C02'] = {
    'text': 'Bounded symbolic model checking of the real DocTest.run part loop, DoctestPart.check and checker.check_got_vs_want/check_output: for every list of k parts (k<=3 quick, <=5 thorough) with symbolic has-code / has-want / eval-mode and symbolic stdout, want and repr texts, the run fails exactly at the first want that matches neither a trailing portion of the pending output nor the value, the execution trace contains every earlier runnable part and no later one, exactly one of passed/failed/skipped holds and "nothing ran" is skipped. Decided for an UNINTERPRETED match relation (hence for the real one under every flag) and again with equality, where every counterexample is replayed end to end.',
    'note': 'Stubs: compile/exec/eval/CaptureStdout are harness stubs (the text of a part is not executed), normalize+_check_match abstracted (uninterpreted M / equality). Parser grouping of statements into parts is C13/C01, matching is C05/C06. Bounds: k parts, strings <=3 characters.',
}
CHECKS['C03'] = {
    'text': 'Bounded symbolic model checking of the real exception path: (A) one call of checker.check_exception inside an except block - extract_exc_want with the real _EXCEPTION_RE executed by the symbolic regex engine, utils.codeblock, _strip_exception_details, check_output - for every exception line <module path><Name>[: message] and every want (free text or traceback block with header, optional stack lines and a final line built the same way) within the bounds: it returns iff the final line matches the exception line or, under IGNORE_EXCEPTION_DETAIL, the names match; otherwise GotWantException; a want that is not a traceback block re-raises the live exception object. (B) the real DocTest.run part loop with k parts, each raising or not, want none / free / traceback: the run fails at the first part the decision table rejects, with the raised exception object itself (non-traceback want or no want) or a GotWantException, for on_error return and raise, and after an expected exception the following parts run. Decided for an uninterpreted match relation and for "equal up to trailing whitespace" (replayed with real exceptions).',
    'note': 'Stubs: compile/exec/CaptureStdout (harness), traceback.format_exception_only -> symbolic exception line of documented shape, textwrap.dedent -> identity under a checked precondition (model validated against CPython every run), normalize+_check_match abstracted (uninterpreted M / rstrip-equality). Assumptions: see evidence. Bounds: names <=2 chars, messages <=2..3 chars (any ASCII incl. colon, dot, newline), k<=2 parts quick / 3 thorough.',
}
NOT_APPLICABLE = {('C%02d' % i): _PENDING for i in range(1, 21)}
