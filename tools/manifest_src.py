HOOK_COMMITS = []
NOTES = ('Every check is `./check <ID> --tier quick|thorough` (sh wrapper -> sea.cli). Exit 0 held / 1 VIOLATION (replayed) / '
         '2 inconclusive / 3 harness error. Checks read the source of $VERIF_REPO (default /repo) at import time in fresh worker '
         'processes; nothing is cached. Known findings: /verif/known_findings.json.')
_PENDING = 'check not built yet in this round (design in DESIGN.md section 5); not claimed until it runs'
CHECKS = {
    'C06': {
        'text': 'Bounded symbolic model checking of the real checker._check_match/_ellipsis_match (incl. the re.split on the pattern in the source): for ALL ASCII got/want within the length bounds and both ELLIPSIS settings the result equals a declarative wildcard dynamic programme; the path tree is exhausted and each path discharged by z3. Nothing is claimed beyond the bounds.',
        'note': 'Trusted: the bounded string/regex models (validated against CPython on every run: re.split model on ~8000 strings, the DP against an independent recursive matcher), z3. ASCII 1..127 only. Normalisation before matching belongs to C05.',
    },
}
CHECKS['C02'] = {
    'text': 'Bounded symbolic model checking of the real DocTest.run part loop, DoctestPart.check and checker.check_got_vs_want/check_output: for every list of k parts (k<=3 quick, <=5 thorough) with symbolic has-code / has-want / eval-mode and symbolic stdout, want and repr texts, the run fails exactly at the first want that matches neither a trailing portion of the pending output nor the value, the execution trace contains every earlier runnable part and no later one, exactly one of passed/failed/skipped holds and "nothing ran" is skipped. Decided for an UNINTERPRETED match relation (hence for the real one under every flag) and again with equality, where every counterexample is replayed end to end.',
    'note': 'Stubs: compile/exec/eval/CaptureStdout are harness stubs (the text of a part is not executed), normalize+_check_match abstracted (uninterpreted M / equality). Parser grouping of statements into parts is C13/C01, matching is C05/C06. Bounds: k parts, strings <=3 characters.',
}
NOT_APPLICABLE = {('C%02d' % i): _PENDING for i in range(1, 21)}
