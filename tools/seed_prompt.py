#!/usr/bin/env python3
"""prints the prompt handed to a seeding sub-agent (only the property text + its worktree)"""
import json, sys
pid = sys.argv[1]
n = sys.argv[2] if len(sys.argv) > 2 else '2'
wt = '/tmp/seed-' + pid
for l in open('/verif/properties.jsonl'):
    d = json.loads(l)
    if d['id'] == pid:
        break
print(f"""You are helping to evaluate a verification effort for the open-source Python project Erotemic/xdoctest (a rewrite of Python's doctest module). Your job is to play the role of a developer who introduces a subtle regression.

You have your own scratch git worktree of the project at {wt} (source under {wt}/src/xdoctest, tests under {wt}/tests). Work ONLY inside {wt} and /tmp/seed-out-{pid} (create it). Never touch /repo or /verif, never read anything under /verif, and do not commit.

The semantic property at stake:

  Title: {d['title']}
  Statement: {d['statement']}
  Quantified over: {d['quantifier']['text']}

Task: produce {n} DIFFERENT, independent, realistic changes to the xdoctest source (each one small: what a plausible refactoring slip, 'optimisation', or wrong bug-fix would look like) such that each change

  1. BREAKS the property above (there is a concrete input / sequence / configuration for which the property's statement is false with your change and true without it);
  2. still compiles/imports and still PASSES the project's existing test suite, unedited. Run it from the worktree with
       cd {wt} && PYTHONPATH={wt}/src /venv/bin/python -m pytest -q -p no:cacheprovider --timeout=900 -x -q 2>&1 | tail -15
     (takes about 4-5 minutes; the two tests tests/test_entry_point.py::test_xdoc_console_script_exec and ::test_xdoc_console_script_location fail even on the unchanged tree and are to be ignored: deselect them with --deselect). Exactly the same set of tests must pass as on the unchanged tree.
  3. needs something SPECIFIC to manifest: an unusual input, a particular multi-step sequence of operations, a particular flag combination, a particular ordering/history, a fault at a particular point, or two cooperating code sites that each look fine alone. NOT something that ordinary use would expose at once (if nearly every doctest run would show it, it is too blunt).

For each change k (k = 1..{n}) write into /tmp/seed-out-{pid}/k/:
  - patch.diff   : output of `git -C {wt} diff` for that change alone (must apply with `git apply` to a clean checkout of the same commit);
  - demo.py      : a small stand-alone program (run as `PYTHONPATH=<tree>/src /venv/bin/python demo.py`) that exits 0 on the unchanged tree and exits non-zero (assertion failure with a helpful message) on the changed tree, demonstrating the property violation through xdoctest's public behaviour;
  - meta.json    : {{"property": "{pid}", "summary": "...what was changed...", "needs": "...what specific circumstance is needed for it to manifest...", "why_tests_miss": "...", "ran": ["commands you ran and their outcome"]}}

Work on one change at a time: make the change, run demo.py against both trees (the unchanged tree is available at /repo/src READ-ONLY: `PYTHONPATH=/repo/src /venv/bin/python demo.py` must exit 0), run the test suite on the changed tree, save the three files, then `git -C {wt} checkout -- .` before starting the next change. Leave the worktree clean at the end (no uncommitted changes). Python to use: /venv/bin/python (3.12). There is no network access.

Final answer: for each change, a 3-line description (file/function changed, what it needs to manifest, test-suite result).""")
