"""single-process probe of one job of a check module (development aid):
  .venv/bin/python tools/probe.py c03 '{"variant":"eq","k":1,"ncap":2,"dcap":2}' [max_paths]
prints progress every 20 paths, then stats, counterexamples and witnesses."""
import importlib
import json
import sys
import time
sys.path.insert(0, '/verif')
from sea import core  # noqa

mod = importlib.import_module('checks.' + sys.argv[1])
job = json.loads(sys.argv[2])
job.setdefault('ob', 'probe')
h = mod.build(job)
t = time.time()
E = core.Explorer(timeout_ms=60000, max_paths=int(sys.argv[3]) if len(sys.argv) > 3 else None)
n = [0]
orig = h.run


def run(ex):
    try:
        return orig(ex)
    finally:
        n[0] += 1
        if n[0] % 20 == 0:
            print(n[0], 'paths', round(time.time() - t, 1), E.stats.as_dict(), flush=True)


E.explore(run, base=h.base, describe=h.describe)
print(E.stats.as_dict(), round(time.time() - t, 1))
for c in E.cex[:3]:
    print('CEX', json.dumps(c, default=str))
print('witnesses', sorted(E.witnesses), 'missing', sorted(set(h.witnesses) - set(E.witnesses)), E.unknown_notes[:3])
