import sys; sys.path.insert(0,'/verif')
import z3, itertools
from sea.symstr import SymStr
from sea import core
# exhaustive validation against CPython: strings over '.a' up to length 7
s, cons = SymStr.fresh('s', 7, '.a')
cnt = s.count('...')
cnt2 = s.count('.a')
sol = z3.Solver(); sol.add(cons)
bad = 0; n = 0
for L in range(8):
    for t in itertools.product('.a', repeat=L):
        t = ''.join(t); n += 1
        sol.push()
        sol.add(s.n == L)
        for i, ch in enumerate(t): sol.add(s.cs[i] == ord(ch))
        assert sol.check() == z3.sat
        m = sol.model()
        def ev(x):
            x = x.e if hasattr(x, 'e') else z3.IntVal(x)
            return m.eval(x, model_completion=True).as_long()
        if ev(cnt) != t.count('...') or ev(cnt2) != t.count('.a'):
            bad += 1; print('MISMATCH', repr(t), ev(cnt), t.count('...'))
        sol.pop()
print('validated', n, 'strings, mismatches', bad)
