#!/bin/sh
# usage: tools/run_all.sh quick|thorough [IDs...]   - runs the checks one after the other, one summary line each
TIER="$1"; shift
IDS="$*"
[ -z "$IDS" ] && IDS="C01 C02 C03 C04 C05 C06 C07 C08 C09 C10 C11 C12 C13 C14 C15 C16 C17 C18 C19 C20"
cd /verif
export VERIF_WITNESS_STRICT=${VERIF_WITNESS_STRICT:-1}   # development runs stop on a disagreement between symbolic and replay oracle
for id in $IDS; do
  S=$(date +%s)
  OUT=$(timeout ${RUN_ALL_TIMEOUT:-5400} ./check $id --tier $TIER 2>&1); RC=$?
  E=$(date +%s)
  echo "$id rc=$RC $((E-S))s $(echo "$OUT" | grep -E 'status=' | tail -1 | cut -c1-260)"
  echo "$OUT" | grep -E "^(VIOLATION|KNOWN-FINDING|INCONCLUSIVE|HARNESS-ERROR)" | cut -c1-300 | head -5
done
