#!/usr/bin/env python3
"""Regenerates MANIFEST.json from tools/manifest_src.py (single source of truth)."""
import json, os, sys
HERE = os.path.dirname(os.path.abspath(__file__))
sys.path.insert(0, HERE)
import manifest_src as M
props = [json.loads(l)['id'] for l in open(os.path.join(HERE, '..', 'properties.jsonl'))]
checks = []
for pid in props:
    c = M.CHECKS.get(pid)
    if not c:
        continue
    checks.append({
        'property_id': pid,
        'quick_cmd': './check %s --tier quick' % pid,
        'thorough_cmd': './check %s --tier thorough' % pid,
        'evidence_file': '/verif/evidence/%s.json' % pid,
        'replay_cmd_template': './check %s --replay {path}' % pid,
        'engine': 'sea',
        'level_claimed': {'category': c.get('category', 'model_checking'), 'text': c['text'], 'design_ref': c.get('design_ref', 'DESIGN.md section 5 ' + pid)},
        'level_note': c['note'],
        'technique': c.get('technique', 'bounded symbolic execution of the real Python source (AST-instrumented at import) with z3; path tree exhausted, every path discharged by an SMT query; counterexamples replayed on the uninstrumented code'),
    })
na = [{'property_id': pid, 'reason': M.NOT_APPLICABLE[pid]} for pid in props if pid not in M.CHECKS]
man = {
    'version': 1,
    'setup_cmd': 'sh /verif/setup.sh',
    'hooks': {
        'guard': 'XDOCTEST_VERIF',
        'enable': 'none needed: instrumentation happens in an import hook inside the check process (sea/instrument.py); /repo is never modified by a check',
        'baseline_off_cmd': 'cd /repo && /venv/bin/python -m pytest -ra -q -p no:cacheprovider --timeout=900 --continue-on-collection-errors',
        'source_commits': M.HOOK_COMMITS,
        'add_only': True,
    },
    'engines': [{'name': 'sea', 'path': '/verif/sea', 'serves_properties': [c['property_id'] for c in checks],
                 'kind_free_text': 'own symbolic executor for the real Python source: import hook that rewrites the AST of /repo/src/xdoctest/*.py at import time, proxy values (SymBool/SymInt over z3 Int, bounded SymStr = BitVec(8) characters + Int length, symbolic regex generated from the pattern text with re._parser), DFS path explorer with decision replay, z3 5.1.0 as deciding solver, cvc5 1.4.0 as second opinion on sampled queries'}],
    'checks': checks,
    'not_applicable': na,
    'notes': M.NOTES,
}
json.dump(man, open(os.path.join(HERE, '..', 'MANIFEST.json'), 'w'), indent=1)
print('checks', len(checks), 'not_applicable', len(na))
