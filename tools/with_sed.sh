#!/bin/sh
# usage: tools/with_sed.sh <file-relative-to-repo> <sed-expr> <command...>
# scratch worktree of /repo HEAD + one sed edit; prints the diff; runs command with VERIF_REPO set.
F="$1"; EXPR="$2"; shift; shift
D=$(mktemp -d /tmp/xdv-mut-XXXXXX); rmdir "$D"
git -C /repo worktree add --detach "$D" HEAD >/dev/null 2>&1
trap 'git -C /repo worktree remove --force "$D" >/dev/null 2>&1 || rm -rf "$D"' EXIT
sed -i -E "$EXPR" "$D/$F"
git -C "$D" diff | grep '^[-+]' | grep -v '^+++\|^---'
VERIF_REPO="$D" "$@"
