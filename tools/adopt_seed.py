#!/usr/bin/env python3
"""usage: tools/adopt_seed.py <PID> <dir produced by a seeding sub-agent> [origin note]
Confirms the change independently (tools/confirm_seed.sh: scratch worktree, demo on both
trees, the full existing suite on the changed tree) and, only if everything holds, stores
it as /verif/seeded/<PID>-<next index>/ {patch.diff, demo.py, meta.json}."""
import json, os, shutil, subprocess, sys
pid, src = sys.argv[1], sys.argv[2].rstrip('/')
origin = sys.argv[3] if len(sys.argv) > 3 else 'independent sub-agent (third round: told which earlier ideas not to repeat) given only the property text and a scratch worktree'
out = '/tmp/confirm-%s-%s.json' % (pid, os.path.basename(src))
subprocess.run(['/verif/tools/confirm_seed.sh', src, out])
c = json.load(open(out))
ok = c.get('applies') and c.get('demo_exit_unchanged') == 0 and c.get('demo_exit_changed') not in (0, None) and c.get('suite', '').startswith('298 passed') and 'failed' not in c.get('suite', '')
if not ok:
    print('NOT ADOPTED', pid, src, c)
    sys.exit(1)
n = 1
while os.path.exists('/verif/seeded/%s-%d' % (pid, n)):
    n += 1
dst = '/verif/seeded/%s-%d' % (pid, n)
os.makedirs(dst)
for f in ('patch.diff', 'demo.py'):
    shutil.copy(os.path.join(src, f), dst)
m = json.load(open(os.path.join(src, 'meta.json')))
m['confirmed_by_me'] = dict(how='tools/confirm_seed.sh: patch applied in a scratch worktree of /repo HEAD, demo.py run against /repo/src (must exit 0) and the changed tree (must exit != 0), full existing suite run on the changed tree', **c)
m['origin'] = origin
json.dump(m, open(os.path.join(dst, 'meta.json'), 'w'), indent=1)
print('ADOPTED', dst)
