#!/usr/bin/env python3
"""Runs every seeded change in /verif/seeded against the quick check of its own
property (and the checks listed in EXTRA): scratch worktree of /repo HEAD + patch,
VERIF_REPO pointing at it.  Writes seeded/MATRIX.json:
  {seed: {check: 'VIOLATION' | 'pass' | 'inconclusive' | 'harness-error' | 'patch-does-not-apply'}}"""
import json, os, subprocess, sys, tempfile, shutil
EXTRA = {'C02-2': ['C12', 'C01'], 'C04-2': ['C01'], 'C11-1': ['C12'], 'C01-2': ['C13'], 'C08-2': ['C09'], 'C09-1': ['C08'], 'C20-2': ['C13'],
         'C16-2': ['C07'], 'C07-2': ['C16'], 'C13-1': ['C20'],
         'C01-3': ['C13'], 'C01-4': ['C13'], 'C18-3': ['C13', 'C08'], 'C06-4': ['C02'], 'C17-4': ['C12'], 'C19-4': ['C10']}
only = sys.argv[1:]
out_path = '/verif/seeded/MATRIX.json'
M = json.load(open(out_path)) if os.path.exists(out_path) else {}
for seed in sorted(os.listdir('/verif/seeded')):
    d = os.path.join('/verif/seeded', seed)
    if not os.path.isdir(d) or (only and seed not in only):
        continue
    checks = [seed.split('-')[0]] + EXTRA.get(seed, [])
    wt = tempfile.mkdtemp(prefix='xdv-mx-')
    os.rmdir(wt)
    subprocess.run(['git', '-C', '/repo', 'worktree', 'add', '--detach', wt, 'HEAD'], capture_output=True)
    try:
        ap = subprocess.run(['git', '-C', wt, 'apply', os.path.join(d, 'patch.diff')], capture_output=True, text=True)
        for c in checks:
            if ap.returncode != 0:
                M.setdefault(seed, {})[c] = 'patch-does-not-apply'
                continue
            try:
                p = subprocess.run(['./check', c, '--tier', 'quick'], cwd='/verif', env=dict(os.environ, VERIF_REPO=wt), capture_output=True, text=True, timeout=1500)
                rc = p.returncode
            except subprocess.TimeoutExpired:
                rc = 2
            M.setdefault(seed, {})[c] = {0: 'pass', 1: 'VIOLATION', 2: 'inconclusive', 3: 'harness-error'}.get(rc, 'rc%d' % rc)
            print(seed, c, M[seed][c], flush=True)
            json.dump(M, open(out_path, 'w'), indent=1, sort_keys=True)
    finally:
        subprocess.run(['git', '-C', '/repo', 'worktree', 'remove', '--force', wt], capture_output=True)
        shutil.rmtree(wt, ignore_errors=True)
json.dump(M, open(out_path, 'w'), indent=1, sort_keys=True)
