#!/bin/sh
# Offline setup: overlay venv on top of /venv (which holds the repository's own
# dependencies) + z3-solver / cvc5 from the local wheelhouse.  Idempotent.
set -e
cd "$(dirname "$0")"
VENV=/verif/.venv
WHEELS=/opt/veriftools/wheels
if [ ! -x "$VENV/bin/python" ]; then
    /venv/bin/python -m venv "$VENV"
fi
SP=$("$VENV/bin/python" -c "import sysconfig; print(sysconfig.get_paths()['purelib'])")
printf "import site; site.addsitedir('/venv/lib/python3.12/site-packages')\n" > "$SP/_overlay.pth"
if ! "$VENV/bin/python" -c "import z3" 2>/dev/null; then
    PIP_NO_INDEX=1 "$VENV/bin/python" -m pip install --quiet --no-index --find-links "$WHEELS" z3-solver
fi
if ! "$VENV/bin/python" -c "import cvc5" 2>/dev/null; then
    PIP_NO_INDEX=1 "$VENV/bin/python" -m pip install --quiet --no-index --find-links "$WHEELS" cvc5 || echo "cvc5 wheel not installed (cross-check disabled)"
fi
"$VENV/bin/python" -c "import z3; print('z3', z3.get_version_string())"
mkdir -p /verif/evidence /verif/replays
echo "setup ok"
