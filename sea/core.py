"""SEA core: DFS path explorer with decision replay + SymBool/SymInt proxies over z3.

The harness function is re-executed from scratch for every path.  The only
place a path forks is SymBool.__bool__ (and SymInt.__index__, which forks over
the feasible values).  At the end of a path the harness returns the property
as a z3 term P; the query PC /\\ not P is discharged.
"""
import os
import time
import z3

_DUMPQ = os.environ.get('SEA_DUMPQ')          # development aid: dump slow queries as SMT-LIB2
_DUMPQ_MIN = float(os.environ.get('SEA_DUMPQ_MIN', '0.2'))


class SeaControl(BaseException):
    """Control-flow exceptions of the engine.  BaseException so that
    `except Exception` in the code under test never swallows them."""


class Infeasible(SeaControl):
    pass


class Unsupported(SeaControl):
    """A construct the proxies cannot model: the check is inconclusive."""


class Budget(SeaControl):
    """Per-path decision budget exhausted (possible non-termination)."""


class Cut(SeaControl):
    """Depth cut while enumerating prefixes for parallel exploration."""


CUR = None


def ex():
    if CUR is None:
        raise Unsupported('symbolic operation outside of an exploration')
    return CUR


class Stats:
    FIELDS = ('paths', 'queries', 'solver_s', 'max_query_s', 'unknown',
              'infeasible', 'final_queries', 'final_unsat', 'final_sat')

    def __init__(self):
        for f in self.FIELDS:
            setattr(self, f, 0)

    def as_dict(self):
        return {f: (round(getattr(self, f), 3) if isinstance(getattr(self, f), float)
                    else getattr(self, f)) for f in self.FIELDS}

    def add(self, other):
        d = other if isinstance(other, dict) else other.as_dict()
        for f in self.FIELDS:
            if f == 'max_query_s':
                self.max_query_s = max(self.max_query_s, d.get(f, 0))
            else:
                setattr(self, f, getattr(self, f) + d.get(f, 0))


class Explorer:
    def __init__(self, timeout_ms=60000, max_decisions=20000, prefix=None,
                 depth_cut=None, max_cex=3, max_paths=None):
        self.prefix = list(prefix or [])
        self.stack = [[d, False] for d in self.prefix]
        self.pos = 0
        self.solver = z3.SimpleSolver() if os.environ.get("SEA_SOLVER", "simple") == "simple" else z3.Solver()
        self.timeout_ms = timeout_ms
        self.solver.set('timeout', timeout_ms)
        self.stats = Stats()
        self.pc = []
        self.base = []
        self.max_decisions = max_decisions
        self.depth_cut = depth_cut
        self.cut_prefixes = []
        self.max_cex = max_cex
        self.max_paths = max_paths
        self.cached_model = None
        self.cex = []          # list of dicts (already described)
        self.witnesses = {}    # name -> described model
        self.wanted_witnesses = set()
        self.unknown_notes = []
        self.describe = None
        self.path_log = None   # optional list of per-path notes
        self.slow = []         # (seconds, smt2) of slow final queries (for cross-check)
        self.keep_queries = 0  # keep up to this many final queries for the cross check
        self.kept_queries = []

    # ---- solver plumbing
    def check(self, *extra):
        t = time.time()
        r = self.solver.check(*extra)
        dt = time.time() - t
        self.stats.solver_s += dt
        self.stats.max_query_s = max(self.stats.max_query_s, dt)
        self.stats.queries += 1
        if r == z3.unknown:
            self.stats.unknown += 1
        if _DUMPQ and dt > _DUMPQ_MIN:
            try:
                s2 = z3.Solver()          # never touch the state of the deciding solver
                s2.add(self.solver.assertions())
                for e in extra:
                    s2.add(e)
                with open(os.path.join(_DUMPQ, 'q%d_%06d_%s_%dms.smt2' % (os.getpid(), self.stats.queries, r, dt * 1000)), 'w') as f:
                    f.write(s2.to_smt2())
            except Exception:
                pass
        return r

    def start_path(self):
        self.pos = 0
        self.cached_model = None
        self.solver.reset()
        self.solver.set('timeout', self.timeout_ms)
        self.pc = []
        for c in self.base:
            self.solver.add(c)

    def assume(self, e):
        if isinstance(e, SymBool):
            e = e.e
        elif isinstance(e, bool):
            if not e:
                raise Infeasible()
            return
        self.solver.add(e)
        self.pc.append(e)
        self._keep_model_if(e)

    def _keep_model_if(self, c):
        """the cached model stays valid only if it satisfies the new constraint"""
        m = self.cached_model
        if m is not None:
            try:
                if not z3.is_true(m.eval(c, model_completion=True)):
                    self.cached_model = None
            except z3.Z3Exception:
                self.cached_model = None

    def assume_checked(self, e):
        """assume + make sure the path stays feasible"""
        self.assume(e)
        if self.check() == z3.unsat:
            raise Infeasible()

    def branch(self, e):
        e = z3.simplify(e)
        if z3.is_true(e):
            return True
        if z3.is_false(e):
            return False
        if self.pos < len(self.stack):
            d = self.stack[self.pos][0]
        else:
            if self.depth_cut is not None and self.pos >= self.depth_cut:
                self.cut_prefixes.append([s[0] for s in self.stack[:self.pos]])
                raise Cut()
            if self.pos >= self.max_decisions:
                raise Budget('more than %d decisions on one path' % self.max_decisions)
            # a model of the current path (kept from the last sat answer) tells
            # which side is certainly feasible: only the other side is queried
            known = None
            m = self.cached_model
            if m is not None:
                try:
                    v = m.eval(e, model_completion=True)
                    if z3.is_true(v):
                        known = True
                    elif z3.is_false(v):
                        known = False
                except z3.Z3Exception:
                    known = None
            if known is None:
                r1 = self.check(e)
                if r1 == z3.sat:
                    m_true = self.solver.model()
                    r2 = self.check(z3.Not(e))
                    if r2 == z3.unsat:
                        d, pend = True, False
                    else:
                        d, pend = True, True
                    self.cached_model = m_true
                elif r1 == z3.unsat:
                    d, pend = False, False
                else:
                    # unknown: explore both sides (soundness is kept by the
                    # final queries; `unknown` is counted in the statistics)
                    d, pend = True, True
                    self.cached_model = None
            else:
                other = z3.Not(e) if known else e
                r = self.check(other)
                if r == z3.unsat:
                    d, pend = known, False
                else:
                    # take the side the cached model satisfies first
                    d, pend = known, True
            self.stack.append([d, pend])
        self.pos += 1
        c = e if d else z3.Not(e)
        self.solver.add(c)
        self.pc.append(c)
        self._keep_model_if(c)
        return d

    def next_path(self):
        while len(self.stack) > len(self.prefix) and not self.stack[-1][1]:
            self.stack.pop()
        if len(self.stack) <= len(self.prefix):
            return False
        self.stack[-1] = [not self.stack[-1][0], False]
        return True

    def model(self):
        return self.solver.model()

    # ---- vacuity guard
    def witness(self, name, cond=True):
        """Record (once) a concrete model of the current path satisfying cond."""
        self.wanted_witnesses.add(name)
        if name in self.witnesses:
            return
        c = lift(cond)
        if z3.is_false(z3.simplify(c)):
            return
        if self.check(c) == z3.sat:
            m = self.solver.model()
            self.witnesses[name] = self.describe(m) if self.describe else str(m)

    # ---- main loop
    def explore(self, fn, base=(), describe=None):
        """fn(ex) runs one path and returns the property: bool / SymBool /
        z3 Bool / dict name -> one of those / None.  Returns self."""
        global CUR
        self.base = list(base)
        self.describe = describe
        prev = CUR
        CUR = self
        try:
            while True:
                self.start_path()
                cut = False
                try:
                    prop = fn(self)
                except Infeasible:
                    prop = None
                    self.stats.infeasible += 1
                except Cut:
                    prop = None
                    cut = True
                if not cut:
                    self.stats.paths += 1
                    self._final(prop)
                if len(self.cex) >= self.max_cex:
                    break
                if self.max_paths and self.stats.paths >= self.max_paths:
                    self.unknown_notes.append('path limit %d reached' % self.max_paths)
                    self.stats.unknown += 1
                    break
                if not self.next_path():
                    break
        finally:
            CUR = prev
        return self

    def _final(self, prop):
        if prop is None:
            return
        items = prop.items() if isinstance(prop, dict) else [('property', prop)]
        for name, p in items:
            p = lift(p)
            p = z3.simplify(p)
            if z3.is_true(p):
                continue
            self.stats.final_queries += 1
            t = time.time()
            r = self.check(z3.Not(p))
            dt = time.time() - t
            m = self.solver.model() if r == z3.sat else None
            if len(self.kept_queries) < self.keep_queries or dt > 5.0:
                try:
                    s2 = z3.Solver()
                    s2.add(self.solver.assertions())
                    s2.add(z3.Not(p))
                    self.kept_queries.append((str(r), round(dt, 2), s2.to_smt2()))
                except Exception:
                    pass
            if r == z3.sat:
                self.stats.final_sat += 1
                d = self.describe(m) if self.describe else {'model': str(m)}
                if isinstance(d, dict):
                    d.setdefault('assertion', name)
                self.cex.append(d)
                return
            elif r == z3.unknown:
                self.unknown_notes.append('final query unknown (%s): %s' % (name, self.solver.reason_unknown()))
            else:
                self.stats.final_unsat += 1


# ---------------------------------------------------------------- proxies

def lift(x):
    if isinstance(x, (SymBool, SymInt)):
        return x.e
    if isinstance(x, bool):
        return z3.BoolVal(x)
    if isinstance(x, int):
        return z3.IntVal(x)
    if isinstance(x, z3.ExprRef):
        return x
    raise Unsupported('cannot lift %r' % type(x))


def mk(v):
    """z3 term -> python value if constant, else proxy"""
    v = z3.simplify(v)
    if z3.is_bool(v):
        if z3.is_true(v):
            return True
        if z3.is_false(v):
            return False
        return SymBool(v)
    if z3.is_int_value(v):
        return v.as_long()
    return SymInt(v)


def is_symbolic(x):
    return isinstance(x, (SymBool, SymInt))


class SymBool:
    __slots__ = ('e',)

    def __init__(self, e):
        self.e = e

    def __bool__(self):
        return ex().branch(self.e)

    def __and__(self, o):
        return mk(z3.And(self.e, lift(o)))
    __rand__ = __and__

    def __or__(self, o):
        return mk(z3.Or(self.e, lift(o)))
    __ror__ = __or__

    def __invert__(self):
        return mk(z3.Not(self.e))

    def __xor__(self, o):
        return mk(z3.Xor(self.e, lift(o)))
    __rxor__ = __xor__

    def __eq__(self, o):
        if not isinstance(o, (bool, SymBool)):
            if isinstance(o, (int, SymInt)):
                return mk(z3.If(self.e, 1, 0) == lift(o))
            return False
        return mk(self.e == lift(o))

    def __ne__(self, o):
        r = self.__eq__(o)
        return (not r) if isinstance(r, bool) else ~r
    __hash__ = None

    def __int__(self):
        return 1 if bool(self) else 0
    __index__ = __int__

    def __repr__(self):
        return 'SymBool(%s)' % self.e

    def sea_repr(self):
        return 'True' if bool(self) else 'False'


def sym_not(x):
    if isinstance(x, SymBool):
        return ~x
    return not x


def sym_and(*xs):
    r = True
    for x in xs:
        if isinstance(x, SymBool):
            r = x if r is True else (r & x)
        elif not x:
            return False
    return r


def sym_or(*xs):
    r = False
    for x in xs:
        if isinstance(x, SymBool):
            r = x if r is False else (r | x)
        elif x:
            return True
    return r


def implies(a, b):
    return sym_or(sym_not(a), b)


class SymInt:
    __slots__ = ('e',)

    def __init__(self, e):
        self.e = e

    def __add__(s, o):
        if not isinstance(o, (int, SymInt, SymBool)):
            return NotImplemented
        return mk(s.e + _li(o))
    __radd__ = __add__

    def __sub__(s, o):
        if not isinstance(o, (int, SymInt, SymBool)):
            return NotImplemented
        return mk(s.e - _li(o))

    def __rsub__(s, o):
        if not isinstance(o, (int, SymInt, SymBool)):
            return NotImplemented
        return mk(_li(o) - s.e)

    def __mul__(s, o):
        if isinstance(o, (int, SymInt, SymBool)):
            return mk(s.e * _li(o))
        return NotImplemented

    def __rmul__(s, o):
        if isinstance(o, (int, SymInt, SymBool)):
            return mk(s.e * _li(o))
        return NotImplemented

    def __floordiv__(s, o):
        if isinstance(o, int) and o > 0:
            return mk(s.e / o)      # z3 Int division is floor for positive divisor
        raise Unsupported('floordiv by non-constant')

    def __mod__(s, o):
        if isinstance(o, int) and o > 0:
            return mk(s.e % o)
        raise Unsupported('mod by non-constant')

    def __neg__(s):
        return mk(-s.e)

    def __pos__(s):
        return s

    def __abs__(s):
        return mk(z3.If(s.e >= 0, s.e, -s.e))

    def __lt__(s, o):
        return mk(s.e < _li(o))

    def __le__(s, o):
        return mk(s.e <= _li(o))

    def __gt__(s, o):
        return mk(s.e > _li(o))

    def __ge__(s, o):
        return mk(s.e >= _li(o))

    def __eq__(s, o):
        if not isinstance(o, (int, SymInt, SymBool)):
            return False
        return mk(s.e == _li(o))

    def __ne__(s, o):
        if not isinstance(o, (int, SymInt, SymBool)):
            return True
        return mk(s.e != _li(o))
    __hash__ = None

    def __index__(s):
        # concretise by forking over the feasible values
        e = ex()
        while True:
            if e.check() != z3.sat:
                raise Infeasible()
            v = e.solver.model().eval(s.e, model_completion=True).as_long()
            if e.branch(s.e == v):
                return v
    __int__ = __index__

    def __bool__(s):
        return bool(s != 0)

    def __repr__(s):
        return 'SymInt(%s)' % s.e

    def sea_repr(s):
        raise Unsupported('repr of a symbolic int')

    def __format__(s, spec):
        return '<symint>'


def _li(o):
    if isinstance(o, SymBool):
        return z3.If(o.e, 1, 0)
    if isinstance(o, bool):
        return z3.IntVal(int(o))
    return lift(o)


def ite(c, a, b):
    if isinstance(c, bool):
        return a if c else b
    return mk(z3.If(lift(c), lift(a), lift(b)))


def sym_min(*xs):
    if len(xs) == 1:
        xs = list(xs[0])
    if not any(isinstance(x, SymInt) for x in xs):
        return min(xs)
    r = xs[0]
    for x in xs[1:]:
        r = ite(x < r, x, r)
    return r


def sym_max(*xs):
    if len(xs) == 1:
        xs = list(xs[0])
    if not any(isinstance(x, SymInt) for x in xs):
        return max(xs)
    r = xs[0]
    for x in xs[1:]:
        r = ite(x > r, x, r)
    return r


def fresh_int(name, lo=None, hi=None):
    v = z3.Int(name)
    cons = []
    if lo is not None:
        cons.append(v >= lo)
    if hi is not None:
        cons.append(v <= hi)
    return SymInt(v), cons


def fresh_bool(name):
    return SymBool(z3.Bool(name))


def choose(sym, options):
    """fork over a SymInt index into a concrete list"""
    return options[int(sym)]
