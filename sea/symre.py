"""Bounded symbolic regular expressions over SymStr.

The pattern text is parsed with CPython's own re._parser at run time (so the
model always follows the pattern found in the source).  For a start position
the model produces the ORDERED list of alternatives (condition, end, group
spans) in backtracking priority order; "the match Python would choose" is
cond_k /\\ not (cond_0 \\/ ... \\/ cond_{k-1}).  Positions are concrete, the
conditions are symbolic.
"""
import re as real_re
import re._parser as sre_parse
import re._constants as K
import z3
from . import core
from .core import Unsupported, mk, lift, SymInt, SymBool
from .symstr import SymStr, SymList, SegList, JoinedLines, compact_emits, C, Z, MAXCAP

TRUE = z3.BoolVal(True)
FALSE = z3.BoolVal(False)


def AND(*xs):
    xs = [x for x in xs if not z3.is_true(x)]
    if any(z3.is_false(x) for x in xs):
        return FALSE
    if not xs:
        return TRUE
    return z3.And(xs) if len(xs) > 1 else xs[0]


def OR(xs):
    xs = [x for x in xs if not z3.is_false(x)]
    if any(z3.is_true(x) for x in xs):
        return TRUE
    if not xs:
        return FALSE
    return z3.Or(xs) if len(xs) > 1 else xs[0]


def NOT(x):
    if z3.is_true(x):
        return FALSE
    if z3.is_false(x):
        return TRUE
    return z3.Not(x)


SPACE = [9, 10, 11, 12, 13, 28, 29, 30, 31, 32]


def is_word(c):
    return z3.Or(z3.And(z3.UGE(c, 48), z3.ULE(c, 57)), z3.And(z3.UGE(c, 65), z3.ULE(c, 90)),
                 z3.And(z3.UGE(c, 97), z3.ULE(c, 122)), c == 95)


def is_digit(c):
    return z3.And(z3.UGE(c, 48), z3.ULE(c, 57))


class SymPattern:
    def __init__(self, pattern, flags=0):
        if isinstance(pattern, SymPattern):
            pattern, flags = pattern.pattern, pattern.flags
        self.pattern = pattern
        self.rx = real_re.compile(pattern, flags)
        self.flags = self.rx.flags
        self._tree = None
        self.groupindex = dict(self.rx.groupindex)
        self.groups = self.rx.groups
        REGISTRY.setdefault((pattern, self.flags), self)

    @property
    def tree(self):
        if self._tree is None:
            self._tree = sre_parse.parse(self.pattern, self.flags & ~real_re.UNICODE if isinstance(self.pattern, bytes) else self.flags)
        return self._tree

    def __getattr__(self, k):
        return getattr(self.rx, k)

    def __repr__(self):
        return 'SymPattern(%r, %d)' % (self.pattern, self.flags)

    # ---- character conditions
    def ccond(self, op, av, c):
        ic = bool(self.flags & real_re.IGNORECASE)
        if op is K.LITERAL:
            if av > 127:
                return FALSE
            if ic and chr(av).isalpha():
                return z3.Or(c == ord(chr(av).lower()), c == ord(chr(av).upper()))
            return c == av
        if op is K.NOT_LITERAL:
            return NOT(self.ccond(K.LITERAL, av, c))
        if op is K.ANY:
            return TRUE if self.flags & real_re.DOTALL else c != 10
        if op is K.RANGE:
            lo, hi = av
            r = z3.And(z3.UGE(c, lo), z3.ULE(c, min(hi, 255)))
            if ic:
                extra = [ch for ch in range(1, 128) if chr(ch).isalpha() and not (lo <= ch <= hi)
                         and (lo <= ord(chr(ch).swapcase()) <= hi)]
                if extra:
                    r = z3.Or([r] + [c == e for e in extra])
            return r
        if op is K.CATEGORY:
            if av is K.CATEGORY_SPACE:
                return z3.Or([c == s for s in SPACE])
            if av is K.CATEGORY_NOT_SPACE:
                return z3.Not(z3.Or([c == s for s in SPACE]))
            if av is K.CATEGORY_WORD:
                return is_word(c)
            if av is K.CATEGORY_NOT_WORD:
                return z3.Not(is_word(c))
            if av is K.CATEGORY_DIGIT:
                return is_digit(c)
            if av is K.CATEGORY_NOT_DIGIT:
                return z3.Not(is_digit(c))
            raise Unsupported('regex category %s' % av)
        if op is K.IN:
            neg = False
            conds = []
            for o, a in av:
                if o is K.NEGATE:
                    neg = True
                else:
                    conds.append(self.ccond(o, a, c))
            r = OR(conds)
            return NOT(r) if neg else r
        raise Unsupported('regex char op %s' % op)

    def at_cond(self, av, s, i):
        n = s.nz()
        ml = bool(self.flags & real_re.MULTILINE)
        if av is K.AT_BEGINNING or av is K.AT_BEGINNING_STRING:
            if av is K.AT_BEGINNING and ml:
                return TRUE if i == 0 else s.at(i - 1) == 10
            return z3.BoolVal(i == 0)
        if av is K.AT_END:
            if ml:
                return z3.Or(n == i, s.at(i) == 10)
            return z3.Or(n == i, z3.And(n == i + 1, s.at(i) == 10))
        if av is K.AT_END_STRING:
            return n == i
        if av is K.AT_BOUNDARY or av is K.AT_NON_BOUNDARY:
            before = is_word(s.at(i - 1)) if i > 0 else FALSE
            after = z3.And(i < n, is_word(s.at(i)))
            b = z3.Xor(before, after)
            return b if av is K.AT_BOUNDARY else z3.Not(b)
        raise Unsupported('regex anchor %s' % av)

    # ---- ordered alternatives
    def seq(self, items, s, i, groups):
        res = [(TRUE, i, groups)]
        for it in items:
            new = []
            for (c, j, g) in res:
                for (c2, j2, g2) in self.item(it, s, j, g):
                    cc = z3.simplify(AND(c, c2))
                    if not z3.is_false(cc):
                        new.append((cc, j2, g2))
            res = new
            if not res:
                break
        return res

    def item(self, it, s, i, groups):
        op, av = it
        n = s.nz()
        if op in (K.LITERAL, K.NOT_LITERAL, K.ANY, K.IN, K.RANGE, K.CATEGORY):
            if i >= s.cap:
                return []
            return [(z3.And(i < n, self.ccond(op, av, s.cs[i])), i + 1, groups)]
        if op is K.AT:
            return [(self.at_cond(av, s, i), i, groups)]
        if op is K.BRANCH:
            out = []
            for alt in av[1]:
                out += self.seq(list(alt), s, i, groups)
            return out
        if op is K.SUBPATTERN:
            gid, addf, delf, p = av
            if addf or delf:
                raise Unsupported('inline regex flags')
            out = []
            for (c, j, g) in self.seq(list(p), s, i, groups):
                if gid is not None:
                    g = dict(g)
                    g[gid] = (i, j)
                out.append((c, j, g))
            return out
        if op in (K.MAX_REPEAT, K.MIN_REPEAT):
            lo, hi, p = av
            greedy = op is K.MAX_REPEAT
            plist = list(p)

            def rep(count, pos, g):
                stop = [(TRUE, pos, g)] if count >= lo else []
                more = []
                if hi is K.MAXREPEAT or count < hi:
                    for (c, j, g2) in self.seq(plist, s, pos, g):
                        if j == pos:
                            continue  # empty iteration: no progress
                        for (c3, j3, g3) in rep(count + 1, j, g2):
                            cc = z3.simplify(AND(c, c3))
                            if not z3.is_false(cc):
                                more.append((cc, j3, g3))
                return (more + stop) if greedy else (stop + more)
            return rep(0, i, groups)
        if op in (K.ASSERT, K.ASSERT_NOT):
            direction, p = av
            if direction == 1:
                c = OR([c for (c, j, g) in self.seq(list(p), s, i, groups)])
            else:
                w = p.getwidth()
                if w[0] != w[1]:
                    raise Unsupported('variable width look-behind')
                w = w[0]
                c = FALSE if i - w < 0 else OR(
                    [c for (c, j, g) in self.seq(list(p), s, i - w, groups) if j == i])
            return [(c if op is K.ASSERT else NOT(c), i, groups)]
        raise Unsupported('regex op %s' % op)

    def match_at(self, s, i, full=False):
        """-> (ordered [(sel_cond, end, groups)], any_match_cond); sel_cond = this
        alternative is THE match chosen at start i."""
        alts = [(c, j, g) for (c, j, g) in self.seq(list(self.tree), s, i, {}) if j <= s.cap]
        out = []
        prior = []
        for (c, j, g) in alts:
            c = AND(c, j <= s.nz())
            if full:
                c = AND(c, s.nz() == j)
            sel = z3.simplify(AND(c, NOT(OR(prior))))
            if not z3.is_false(sel):
                out.append((sel, j, g))
            prior.append(c)
        return out, z3.simplify(OR(prior))

    # ---- API
    def sub(self, repl, s, count=0):
        if not isinstance(s, SymStr):
            return self.rx.sub(repl, s, count)
        c = s.const()
        if c is not None:
            return SymStr.of(self.rx.sub(repl, c, count))
        if count != 0 or callable(repl):
            raise Unsupported('re.sub count / callable')
        tmpl = sre_parse.parse_template(repl, self.rx)
        if isinstance(tmpl, tuple):     # py < 3.12
            raise Unsupported('old parse_template format')
        n = s.nz()
        cap = s.cap
        active = [FALSE] * (cap + 2)
        active[0] = TRUE
        emits = []
        grows = 0
        for p in range(cap + 1):
            a = z3.simplify(AND(active[p], p <= n))
            if z3.is_false(a):
                continue
            alts, anym = self.match_at(s, p)
            copy_guards = [AND(a, NOT(anym))]
            for (sel, j, g) in alts:
                gd = z3.simplify(AND(a, sel))
                emitted = 0
                for t in tmpl:
                    if isinstance(t, int):
                        if t in g:
                            for q in range(g[t][0], g[t][1]):
                                emits.append((gd, s.cs[q]))
                                emitted += 1
                    elif t:
                        for ch in t:
                            emits.append((gd, C(ch)))
                            emitted += 1
                grows = max(grows, emitted - (j - p))
                if j == p:
                    copy_guards.append(gd)
                else:
                    active[j] = OR([active[j], gd])
            cg = z3.simplify(OR(copy_guards))
            if p < cap:
                emits.append((AND(cg, p < n), s.cs[p]))
                active[p + 1] = OR([active[p + 1], cg])
        if grows <= 0:
            return compact_emits(emits, cap, checked=False)
        return compact_emits(emits, min(MAXCAP, cap + grows * (cap + 1)))

    def split(self, s, maxsplit=0):
        if not isinstance(s, SymStr):
            return self.rx.split(s, maxsplit)
        c = s.const()
        if c is not None:
            return [SymStr.of(x) for x in self.rx.split(c, maxsplit)]
        if maxsplit != 0 or self.groups:
            raise Unsupported('re.split with maxsplit / groups')
        lo = self.tree.getwidth()[0]
        if lo < 1:
            raise Unsupported('re.split with a possibly empty separator')
        n = s.nz()
        cap = s.cap
        active = [FALSE] * (cap + 2)
        active[0] = TRUE
        sepstart = []
        e = []
        for p in range(cap):
            a = z3.simplify(AND(active[p], p < n))
            if z3.is_false(a):
                sepstart.append(FALSE)
                e.append(z3.IntVal(p))
                active[p + 1] = OR([active[p + 1], FALSE])
                continue
            alts, anym = self.match_at(s, p)
            ep = z3.IntVal(p)
            for (sel, j, g) in reversed(alts):
                ep = z3.If(sel, j, ep)
                active[j] = OR([active[j], AND(a, sel)])
            sepstart.append(z3.simplify(AND(a, anym)))
            e.append(z3.simplify(ep))
            active[p + 1] = OR([active[p + 1], AND(a, NOT(anym))])
        Kmax = cap // lo
        cnt = [z3.IntVal(0)]
        for i in range(cap):
            cnt.append(cnt[-1] + z3.If(sepstart[i], 1, 0))
        nsep = cnt[cap]
        pieces = []
        start = z3.IntVal(0)
        for k in range(Kmax + 1):
            endk = n
            nxt = n
            for i in reversed(range(cap)):
                c = z3.And(sepstart[i], cnt[i] == k)
                endk = z3.If(c, z3.IntVal(i), endk)
                nxt = z3.If(c, e[i], nxt)
            pieces.append(s[SymInt(z3.simplify(start)):SymInt(z3.simplify(endk))])
            start = nxt
        return SymList(pieces, mk(nsep + 1))

    def _search(self, s, positions, full=False):
        gids = list(range(1, self.groups + 1))
        found = FALSE
        st = z3.IntVal(-1)
        en = z3.IntVal(-1)
        gs = {g: (z3.IntVal(-1), z3.IntVal(-1)) for g in gids}
        for p in positions:
            alts, anym = self.match_at(s, p, full=full)
            here = z3.simplify(AND(NOT(found), p <= s.nz(), anym))
            if z3.is_false(here):
                continue
            e = z3.IntVal(-1)
            lg = {g: (z3.IntVal(-1), z3.IntVal(-1)) for g in gids}
            for (sel, j, g) in reversed(alts):
                e = z3.If(sel, j, e)
                for gid in gids:
                    a, b = g.get(gid, (-1, -1))
                    lg[gid] = (z3.If(sel, a, lg[gid][0]), z3.If(sel, b, lg[gid][1]))
            st = z3.If(here, p, st)
            en = z3.If(here, e, en)
            for gid in gids:
                gs[gid] = (z3.If(here, lg[gid][0], gs[gid][0]), z3.If(here, lg[gid][1], gs[gid][1]))
            found = OR([found, here])
        if not mk(z3.simplify(found)):
            return None
        return SymMatch(self, s, z3.simplify(st), z3.simplify(en),
                        {g: (z3.simplify(a), z3.simplify(b)) for g, (a, b) in gs.items()})

    def search(self, s, pos=0, endpos=None):
        if not isinstance(s, SymStr):
            return self.rx.search(s, pos) if endpos is None else self.rx.search(s, pos, endpos)
        c = s.const()
        if c is not None and endpos is None:
            return self.rx.search(c, pos)
        if isinstance(s, JoinedLines) or endpos is not None:
            raise Unsupported('search on JoinedLines / endpos')
        return self._search(s, range(pos, s.cap + 1))

    def match(self, s, pos=0):
        if not isinstance(s, SymStr):
            return self.rx.match(s, pos)
        c = s.const()
        if c is not None:
            return self.rx.match(c, pos)
        if isinstance(s, JoinedLines):
            raise Unsupported('match on JoinedLines')
        return self._search(s, [pos])

    def fullmatch(self, s):
        if not isinstance(s, SymStr):
            return self.rx.fullmatch(s)
        c = s.const()
        if c is not None:
            return self.rx.fullmatch(c)
        return self._search(s, [0], full=True)

    def findall(self, s):
        if not isinstance(s, SymStr):
            return self.rx.findall(s)
        c = s.const()
        if c is not None:
            return [SymStr.of(x) if isinstance(x, str) else x for x in self.rx.findall(c)]
        if isinstance(s, JoinedLines):
            # line-local patterns only (validated concretely by validate.py):
            # at most one match per line, found by search, forks on existence
            if not (self.flags & real_re.MULTILINE) or self.groups > 1:
                raise Unsupported('findall on JoinedLines for this pattern')
            out = []
            for l in s.lines:
                m = self.search(l)
                if m is not None:
                    out.append(m.group(1 if self.groups else 0))
            return out
        raise Unsupported('findall on a flat symbolic string')

    def finditer(self, s):
        if not isinstance(s, SymStr):
            return self.rx.finditer(s)
        c = s.const()
        if c is not None:
            return self.rx.finditer(c)
        raise Unsupported('finditer on a symbolic string')


class SymMatch:
    def __init__(self, pat, s, st, en, gs):
        self.pat = pat
        self.s = s
        self.st = st
        self.en = en
        self.gs = gs
        self.re = pat
        self.string = s

    def _gid(self, g):
        if isinstance(g, str):
            return self.pat.groupindex[g]
        return g

    def start(self, g=0):
        if g == 0:
            return mk(self.st)
        return mk(self.gs[self._gid(g)][0])

    def end(self, g=0):
        if g == 0:
            return mk(self.en)
        return mk(self.gs[self._gid(g)][1])

    def span(self, g=0):
        return (self.start(g), self.end(g))

    def group(self, g=0):
        if g == 0:
            return self.s[SymInt(self.st):SymInt(self.en)]
        a, b = self.gs[self._gid(g)]
        part = mk(a >= 0)
        if not part:
            return None
        return self.s[SymInt(a):SymInt(b)]

    def groups(self):
        return tuple(self.group(g) for g in range(1, self.pat.groups + 1))

    def groupdict(self):
        return {name: self.group(name) for name in self.pat.groupindex}

    def __bool__(self):
        return True


REGISTRY = {}
