"""Bounded symbolic regular expressions over SymStr.

The pattern text is parsed with CPython's own re._parser at run time (so the
model always follows the pattern found in the source).  For a start position
the model produces the ORDERED list of alternatives (condition, end, group
spans) in backtracking priority order; "the match Python would choose" is
cond_k /\\ not (cond_0 \\/ ... \\/ cond_{k-1}).  Positions are concrete, the
conditions are symbolic.
"""
import re as real_re
import re._parser as sre_parse
import re._constants as K
import z3
from . import core
from .core import Unsupported, mk, lift, SymInt, SymBool
from .symstr import SymStr, SymList, SegList, JoinedLines, compact_emits, C, Z, MAXCAP

TRUE = z3.BoolVal(True)
FALSE = z3.BoolVal(False)


_CTX = z3.main_ctx()
_TRUE_ID = TRUE.get_id()
_FALSE_ID = FALSE.get_id()


def _mk_nary(fn, xs):
    """z3.And / z3.Or through the C API (the python wrappers spend most of
    their time coercing arguments)"""
    n = len(xs)
    arr = (z3.Ast * n)()
    for k, x in enumerate(xs):
        arr[k] = x.ast
    return z3.BoolRef(fn(_CTX.ref(), n, arr), _CTX)


def AND(*xs):
    out = []
    for x in xs:
        i = x.get_id()
        if i == _TRUE_ID:
            continue
        if i == _FALSE_ID:
            return FALSE
        out.append(x)
    if not out:
        return TRUE
    return _mk_nary(z3.Z3_mk_and, out) if len(out) > 1 else out[0]


def OR(xs):
    out = []
    for x in xs:
        i = x.get_id()
        if i == _FALSE_ID:
            continue
        if i == _TRUE_ID:
            return TRUE
        out.append(x)
    if not out:
        return FALSE
    return _mk_nary(z3.Z3_mk_or, out) if len(out) > 1 else out[0]


def NOT(x):
    i = x.get_id()
    if i == _TRUE_ID:
        return FALSE
    if i == _FALSE_ID:
        return TRUE
    return z3.BoolRef(z3.Z3_mk_not(_CTX.ref(), x.ast), _CTX)


SPACE = [9, 10, 11, 12, 13, 28, 29, 30, 31, 32]


def is_word(c):
    return z3.Or(z3.And(z3.UGE(c, 48), z3.ULE(c, 57)), z3.And(z3.UGE(c, 65), z3.ULE(c, 90)),
                 z3.And(z3.UGE(c, 97), z3.ULE(c, 122)), c == 95)


def is_digit(c):
    return z3.And(z3.UGE(c, 48), z3.ULE(c, 57))


class SymPattern:
    def __init__(self, pattern, flags=0):
        if isinstance(pattern, SymPattern):
            pattern, flags = pattern.pattern, pattern.flags
        self.pattern = pattern
        self.rx = real_re.compile(pattern, flags)
        self.flags = self.rx.flags
        self._tree = None
        self.groupindex = dict(self.rx.groupindex)
        self.groups = self.rx.groups
        REGISTRY.setdefault((pattern, self.flags), self)

    @property
    def tree(self):
        if self._tree is None:
            self._tree = sre_parse.parse(self.pattern, self.flags & ~real_re.UNICODE if isinstance(self.pattern, bytes) else self.flags)
        return self._tree

    def __getattr__(self, k):
        return getattr(self.rx, k)

    def __repr__(self):
        return 'SymPattern(%r, %d)' % (self.pattern, self.flags)

    # ---- character conditions
    def ccond(self, op, av, c):
        ic = bool(self.flags & real_re.IGNORECASE)
        if op is K.LITERAL:
            if av > 127:
                return FALSE
            if ic and chr(av).isalpha():
                return z3.Or(c == ord(chr(av).lower()), c == ord(chr(av).upper()))
            return c == av
        if op is K.NOT_LITERAL:
            return NOT(self.ccond(K.LITERAL, av, c))
        if op is K.ANY:
            return TRUE if self.flags & real_re.DOTALL else c != 10
        if op is K.RANGE:
            lo, hi = av
            r = z3.And(z3.UGE(c, lo), z3.ULE(c, min(hi, 255)))
            if ic:
                extra = [ch for ch in range(1, 128) if chr(ch).isalpha() and not (lo <= ch <= hi)
                         and (lo <= ord(chr(ch).swapcase()) <= hi)]
                if extra:
                    r = z3.Or([r] + [c == e for e in extra])
            return r
        if op is K.CATEGORY:
            if av is K.CATEGORY_SPACE:
                return z3.Or([c == s for s in SPACE])
            if av is K.CATEGORY_NOT_SPACE:
                return z3.Not(z3.Or([c == s for s in SPACE]))
            if av is K.CATEGORY_WORD:
                return is_word(c)
            if av is K.CATEGORY_NOT_WORD:
                return z3.Not(is_word(c))
            if av is K.CATEGORY_DIGIT:
                return is_digit(c)
            if av is K.CATEGORY_NOT_DIGIT:
                return z3.Not(is_digit(c))
            raise Unsupported('regex category %s' % av)
        if op is K.IN:
            neg = False
            conds = []
            for o, a in av:
                if o is K.NEGATE:
                    neg = True
                else:
                    conds.append(self.ccond(o, a, c))
            r = OR(conds)
            return NOT(r) if neg else r
        raise Unsupported('regex char op %s' % op)

    def at_cond(self, av, s, i):
        n = s.nz()
        ml = bool(self.flags & real_re.MULTILINE)
        if av is K.AT_BEGINNING or av is K.AT_BEGINNING_STRING:
            if av is K.AT_BEGINNING and ml:
                return TRUE if i == 0 else s.at(i - 1) == 10
            return z3.BoolVal(i == 0)
        if av is K.AT_END:
            if i < s.lo:
                return (s.at(i) == 10) if ml else z3.And(n == i + 1, s.at(i) == 10)
            if ml:
                return z3.Or(n == i, s.at(i) == 10)
            return z3.Or(n == i, z3.And(n == i + 1, s.at(i) == 10))
        if av is K.AT_END_STRING:
            return FALSE if i < s.lo else n == i
        if av is K.AT_BOUNDARY or av is K.AT_NON_BOUNDARY:
            before = is_word(s.at(i - 1)) if i > 0 else FALSE
            after = z3.And(i < n, is_word(s.at(i)))
            b = z3.Xor(before, after)
            return b if av is K.AT_BOUNDARY else z3.Not(b)
        raise Unsupported('regex anchor %s' % av)

    # ---- ordered alternatives
    # Conditions inside seq/item/rep are CONJUNCTION LISTS: tuples of z3 Bool
    # atoms (each simplified once; true atoms dropped, a false atom prunes the
    # alternative).  z3 terms are only built in match_at.  This keeps the cost
    # of enumerating the backtracking order linear in the number of
    # alternatives instead of re-simplifying growing conjunctions.
    def _atom(self, t):
        """-> None if false, () if true, (term,) otherwise"""
        if isinstance(t, bool):
            return () if t else None
        t = z3.simplify(t)
        if z3.is_true(t):
            return ()
        if z3.is_false(t):
            return None
        return (t,)

    def _char_atom(self, op, av, s, i):
        # the cache lives on the string object (and dies with it)
        key = (self.flags, str(op), repr(av), i)
        cache = s.__dict__.setdefault('_recache', {})
        if key not in cache:
            if i < s.lo:
                cache[key] = self._atom(self.ccond(op, av, s.cs[i]))
            else:
                cache[key] = self._atom(z3.And(i < s.nz(), self.ccond(op, av, s.cs[i])))
        return cache[key]

    def _runlen(self, op, av, s):
        """R[i] = length of the maximal run of characters matching the class
        (op, av) that starts at i and stays inside the string (z3 Int terms,
        one shared backward pass per (class, string))"""
        key = ('run', self.flags, str(op), repr(av))
        cache = s.__dict__.setdefault('_recache', {})
        if key not in cache:
            n = s.nz()
            R = [None] * (s.cap + 1)
            R[s.cap] = z3.IntVal(0)
            always = op is K.ANY and bool(self.flags & real_re.DOTALL)
            for i in reversed(range(s.cap)):
                if always:
                    R[i] = z3.simplify(z3.If(n > i, n - i, 0))
                else:
                    a = self._char_atom(op, av, s, i)
                    if a is None:
                        R[i] = z3.IntVal(0)
                    else:
                        R[i] = z3.simplify(z3.If(AND(*a), 1 + R[i + 1], 0)) if a else z3.simplify(1 + R[i + 1])
            cache[key] = R
        return cache[key]

    def seq(self, items, s, i, groups, tail=False):
        res = [((), i, groups)]
        last = len(items) - 1
        for x, it in enumerate(items):
            new = []
            for (c, j, g) in res:
                for (c2, j2, g2) in self.item(it, s, j, g, tail=tail and x == last):
                    new.append((c + c2, j2, g2))
            res = new
            if not res:
                break
        return res

    def item(self, it, s, i, groups, tail=False):
        op, av = it
        if op in (K.LITERAL, K.NOT_LITERAL, K.ANY, K.IN, K.RANGE, K.CATEGORY):
            if i >= s.cap:
                return []
            a = self._char_atom(op, av, s, i)
            return [] if a is None else [(a, i + 1, groups)]
        if op is K.AT:
            a = self._atom(self.at_cond(av, s, i))
            return [] if a is None else [(a, i, groups)]
        if op is K.BRANCH:
            out = []
            for alt in av[1]:
                out += self.seq(list(alt), s, i, groups, tail=tail)
            return out
        if op is K.SUBPATTERN:
            gid, addf, delf, p = av
            if addf or delf:
                raise Unsupported('inline regex flags')
            out = []
            for (c, j, g) in self.seq(list(p), s, i, groups, tail=tail):
                if gid is not None:
                    g = dict(g)
                    g[gid] = (i, j)
                out.append((c, j, g))
            return out
        if op in (K.MAX_REPEAT, K.MIN_REPEAT):
            lo, hi, p = av
            greedy = op is K.MAX_REPEAT
            plist = list(p)
            if (tail and greedy and len(plist) == 1 and hi is K.MAXREPEAT
                    and plist[0][0] in (K.LITERAL, K.NOT_LITERAL, K.ANY, K.IN, K.RANGE, K.CATEGORY)):
                # greedy single-character repeat that ends the whole pattern:
                # nothing follows, so the match simply extends over the maximal
                # run.  ONE alternative with a symbolic end instead of one per
                # possible length.
                if i > s.cap:
                    return []
                R = self._runlen(plist[0][0], plist[0][1], s)[i]
                a = self._atom(R >= lo) if lo > 0 else ()
                if a is None:
                    return []
                b2 = self._atom(i <= s.nz()) if i > s.lo else ()
                if b2 is None:
                    return []
                return [(a + b2, z3.simplify(i + R), groups)]

            def rep(count, pos, g):
                stop = [((), pos, g)] if count >= lo else []
                more = []
                if hi is K.MAXREPEAT or count < hi:
                    for (c, j, g2) in self.seq(plist, s, pos, g):
                        if j == pos:
                            continue  # empty iteration: no progress
                        for (c3, j3, g3) in rep(count + 1, j, g2):
                            more.append((c + c3, j3, g3))
                return (more + stop) if greedy else (stop + more)
            if not tail:
                return rep(0, i, groups)
            # the continuation of every iteration count is the pattern end
            return rep(0, i, groups)
        if op in (K.ASSERT, K.ASSERT_NOT):
            direction, p = av
            if direction == 1:
                c = OR([AND(*c) for (c, j, g) in self.seq(list(p), s, i, groups)])
            else:
                w = p.getwidth()
                if w[0] != w[1]:
                    raise Unsupported('variable width look-behind')
                w = w[0]
                c = FALSE if i - w < 0 else OR(
                    [AND(*c) for (c, j, g) in self.seq(list(p), s, i - w, groups) if j == i])
            a = self._atom(c if op is K.ASSERT else NOT(c))
            return [] if a is None else [(a, i, groups)]
        raise Unsupported('regex op %s' % op)

    @staticmethod
    def _rkey(j, g):
        def k(v):
            return v if isinstance(v, int) else ('t', v.get_id())
        return (k(j), tuple(sorted((gid, k(a), k(b)) for gid, (a, b) in g.items())))

    def match_at(self, s, i, full=False, symbolic_end=False):
        """-> (ordered [(sel_cond, end, groups)], any_match_cond); sel_cond = this
        alternative is THE match chosen at start i.  With symbolic_end the end
        (and group ends) of an alternative may be z3 Int terms."""
        alts = [(c, j, g) for (c, j, g) in self.seq(list(self.tree), s, i, {}, tail=symbolic_end)
                if not isinstance(j, int) or j <= s.cap]
        n = s.nz()
        # 1. conjunction terms; 2. merge ADJACENT alternatives with the same
        # result (end, groups): their relative priority does not matter
        merged = []
        for (c, j, g) in alts:
            if isinstance(j, int):
                extra = () if j <= s.lo else self._atom(j <= n)
            else:
                extra = self._atom(j <= n)
            if extra is None:
                continue
            c = c + extra
            if full:
                e2 = self._atom(n == j)
                if e2 is None:
                    continue
                c = c + e2
            # atoms are shared between alternatives: dedupe, keep order
            seen = set()
            lst = []
            for a in c:
                k = a.get_id()
                if k not in seen:
                    seen.add(k)
                    lst.append(a)
            ct = AND(*lst)
            rk = self._rkey(j, g)
            if merged and merged[-1][0] == rk:
                merged[-1][1].append(ct)
            else:
                merged.append((rk, [ct], j, g))
        out = []
        conds = []
        none_before = TRUE
        for (rk, cts, j, g) in merged:
            ct = OR(cts)
            sel = AND(ct, none_before)
            out.append((sel, j, g))
            conds.append(ct)
            if ct.get_id() == _TRUE_ID:
                none_before = FALSE
                break
            none_before = AND(none_before, NOT(ct))
        return out, OR(conds)

    # ---- API
    def sub(self, repl, s, count=0):
        if not isinstance(s, SymStr):
            return self.rx.sub(repl, s, count)
        c = s.const()
        if c is not None:
            return SymStr.of(self.rx.sub(repl, c, count))
        if count != 0 or callable(repl):
            raise Unsupported('re.sub count / callable')
        tmpl = sre_parse.parse_template(repl, self.rx)
        if isinstance(tmpl, tuple):     # py < 3.12
            raise Unsupported('old parse_template format')
        n = s.nz()
        cap = s.cap
        active = [FALSE] * (cap + 2)
        active[0] = TRUE
        emits = []
        grows = 0
        for p in range(cap + 1):
            a = z3.simplify(AND(active[p], p <= n))
            if z3.is_false(a):
                continue
            alts, anym = self.match_at(s, p)
            copy_guards = [AND(a, NOT(anym))]
            for (sel, j, g) in alts:
                gd = z3.simplify(AND(a, sel))
                emitted = 0
                for t in tmpl:
                    if isinstance(t, int):
                        if t in g:
                            for q in range(g[t][0], g[t][1]):
                                emits.append((gd, s.cs[q]))
                                emitted += 1
                    elif t:
                        for ch in t:
                            emits.append((gd, C(ch)))
                            emitted += 1
                grows = max(grows, emitted - (j - p))
                if j == p:
                    copy_guards.append(gd)
                else:
                    active[j] = OR([active[j], gd])
            cg = z3.simplify(OR(copy_guards))
            if p < cap:
                emits.append((AND(cg, p < n), s.cs[p]))
                active[p + 1] = OR([active[p + 1], cg])
        if grows <= 0:
            return compact_emits(emits, cap, checked=False)
        return compact_emits(emits, min(MAXCAP, cap + grows * (cap + 1)))

    def split(self, s, maxsplit=0):
        if not isinstance(s, SymStr):
            return self.rx.split(s, maxsplit)
        c = s.const()
        if c is not None:
            return [SymStr.of(x) for x in self.rx.split(c, maxsplit)]
        if isinstance(maxsplit, int):
            maxsplit = int(maxsplit)        # (an IntFlag passed by mistake is still an int for CPython)
        if self.groups or not isinstance(maxsplit, int) or maxsplit < 0:
            # not modelled: concretise (forks over the feasible values; normally
            # the path condition already determines the text)
            return [SymStr.of(x) if isinstance(x, str) else x for x in self.rx.split(s.concretize(), maxsplit)]
        lo = self.tree.getwidth()[0]
        if lo < 1:
            raise Unsupported('re.split with a possibly empty separator')
        n = s.nz()
        cap = s.cap
        active = [FALSE] * (cap + 2)
        active[0] = TRUE
        sepstart = []
        e = []
        for p in range(cap):
            a = z3.simplify(AND(active[p], p < n))
            if z3.is_false(a):
                sepstart.append(FALSE)
                e.append(z3.IntVal(p))
                active[p + 1] = OR([active[p + 1], FALSE])
                continue
            alts, anym = self.match_at(s, p)
            ep = z3.IntVal(p)
            for (sel, j, g) in reversed(alts):
                ep = z3.If(sel, j, ep)
                active[j] = OR([active[j], AND(a, sel)])
            sepstart.append(z3.simplify(AND(a, anym)))
            e.append(z3.simplify(ep))
            active[p + 1] = OR([active[p + 1], AND(a, NOT(anym))])
        Kmax = cap // lo
        cnt = [z3.IntVal(0)]
        for i in range(cap):
            cnt.append(cnt[-1] + z3.If(sepstart[i], 1, 0))
        if maxsplit > 0:
            # only the first `maxsplit` separators split; the rest stays in the last piece
            sepstart = [z3.And(sepstart[i], cnt[i] < maxsplit) for i in range(cap)]
            Kmax = min(Kmax, maxsplit)
            cnt = [z3.IntVal(0)]
            for i in range(cap):
                cnt.append(cnt[-1] + z3.If(sepstart[i], 1, 0))
        nsep = cnt[cap]
        pieces = []
        start = z3.IntVal(0)
        for k in range(Kmax + 1):
            endk = n
            nxt = n
            for i in reversed(range(cap)):
                c = z3.And(sepstart[i], cnt[i] == k)
                endk = z3.If(c, z3.IntVal(i), endk)
                nxt = z3.If(c, e[i], nxt)
            pieces.append(s[SymInt(z3.simplify(start)):SymInt(z3.simplify(endk))])
            start = nxt
        return SymList(pieces, mk(nsep + 1))

    def _search(self, s, positions, full=False):
        gids = list(range(1, self.groups + 1))
        found = FALSE
        st = z3.IntVal(-1)
        en = z3.IntVal(-1)
        gs = {g: (z3.IntVal(-1), z3.IntVal(-1)) for g in gids}
        cand = {g: (set(), set(), set()) for g in [0] + gids}   # concrete candidate starts / ends / {'sym'} if an end is symbolic
        for p in positions:
            alts, anym = self.match_at(s, p, full=full, symbolic_end=True)
            here = z3.simplify(AND(NOT(found), p <= s.nz(), anym))
            if z3.is_false(here):
                continue
            e = z3.IntVal(-1)
            lg = {g: (z3.IntVal(-1), z3.IntVal(-1)) for g in gids}
            for (sel, j, g) in reversed(alts):
                e = z3.If(sel, j, e)
                cand[0][0].add(p)
                cand[0][1].add(j if isinstance(j, int) else s.cap)
                if not isinstance(j, int):
                    cand[0][2].add('sym')
                for gid in gids:
                    a, b = g.get(gid, (-1, -1))
                    lg[gid] = (z3.If(sel, a, lg[gid][0]), z3.If(sel, b, lg[gid][1]))
                    if not isinstance(a, int) or a >= 0:
                        cand[gid][0].add(a)
                        cand[gid][1].add(b if isinstance(b, int) else s.cap)
                        if not isinstance(b, int):
                            cand[gid][2].add('sym')
            st = z3.If(here, p, st)
            en = z3.If(here, e, en)
            for gid in gids:
                gs[gid] = (z3.If(here, lg[gid][0], gs[gid][0]), z3.If(here, lg[gid][1], gs[gid][1]))
            found = OR([found, here])
        if not mk(z3.simplify(found)):
            return None
        return SymMatch(self, s, z3.simplify(st), z3.simplify(en),
                        {g: (z3.simplify(a), z3.simplify(b)) for g, (a, b) in gs.items()}, cand)

    def search(self, s, pos=0, endpos=None):
        if not isinstance(s, SymStr):
            return self.rx.search(s, pos) if endpos is None else self.rx.search(s, pos, endpos)
        c = s.const()
        if c is not None and endpos is None:
            return self.rx.search(c, pos)
        if isinstance(s, JoinedLines) or endpos is not None:
            raise Unsupported('search on JoinedLines / endpos')
        return self._search(s, range(pos, s.cap + 1))

    def match(self, s, pos=0):
        if not isinstance(s, SymStr):
            return self.rx.match(s, pos)
        c = s.const()
        if c is not None:
            return self.rx.match(c, pos)
        if isinstance(s, JoinedLines):
            raise Unsupported('match on JoinedLines')
        return self._search(s, [pos])

    def fullmatch(self, s):
        if not isinstance(s, SymStr):
            return self.rx.fullmatch(s)
        c = s.const()
        if c is not None:
            return self.rx.fullmatch(c)
        return self._search(s, [0], full=True)

    def findall(self, s):
        if not isinstance(s, SymStr):
            return self.rx.findall(s)
        c = s.const()
        if c is not None:
            return [SymStr.of(x) if isinstance(x, str) else x for x in self.rx.findall(c)]
        if isinstance(s, JoinedLines):
            # line-local patterns only (validated concretely by validate.py):
            # at most one match per line, found by search, forks on existence
            if not (self.flags & real_re.MULTILINE) or self.groups > 1:
                raise Unsupported('findall on JoinedLines for this pattern')
            out = []
            for l in s.lines:
                m = self.search(l)
                if m is not None:
                    out.append(m.group(1 if self.groups else 0))
            return out
        return [SymStr.of(x) if isinstance(x, str) else x for x in self.rx.findall(s.concretize())]

    def finditer(self, s):
        if not isinstance(s, SymStr):
            return self.rx.finditer(s)
        c = s.const()
        if c is not None:
            return self.rx.finditer(c)
        return self.rx.finditer(s.concretize())


class SymMatch:
    def __init__(self, pat, s, st, en, gs, cand=None):
        self.cand = cand or {}
        self.pat = pat
        self.s = s
        self.st = st
        self.en = en
        self.gs = gs
        self.re = pat
        self.string = s

    def _gid(self, g):
        if isinstance(g, str):
            return self.pat.groupindex[g]
        return g

    def start(self, g=0):
        if g == 0:
            return mk(self.st)
        return mk(self.gs[self._gid(g)][0])

    def end(self, g=0):
        if g == 0:
            return mk(self.en)
        return mk(self.gs[self._gid(g)][1])

    def span(self, g=0):
        return (self.start(g), self.end(g))

    def _slice(self, gid, a, b):
        """s[a:b] where a / b are known to range over the concrete candidate
        positions collected during the search: the result gets a tight
        capacity and each character is an ite over the candidate starts only"""
        starts, ends, symflag = self.cand.get(gid, (None, None, None))
        if not starts or not ends or any(not isinstance(x, int) for x in starts):
            return self.s[SymInt(a):SymInt(b)]
        starts = sorted(starts)
        cap = max(0, max(ends) - starts[0])
        s = self.s
        ln = z3.simplify(b - a)
        cs = []
        for k in range(cap):
            ch = Z
            for a0 in reversed(starts):
                c0 = s.cs[a0 + k] if a0 + k < s.cap else Z
                ch = c0 if a0 is starts[-1] and len(starts) == 1 else z3.If(a == a0, c0, ch)
            cs.append(z3.simplify(z3.If(k < ln, ch, Z)))
        lo = 0
        if len(starts) == 1 and not symflag:
            lo = max(0, min(min(ends), s.lo) - starts[0])
        return SymStr(cs, ln, lo=lo)

    def group(self, g=0):
        if g == 0:
            return self._slice(0, self.st, self.en)
        gid = self._gid(g)
        a, b = self.gs[gid]
        part = mk(a >= 0)
        if not part:
            return None
        return self._slice(gid, a, b)

    def groups(self):
        return tuple(self.group(g) for g in range(1, self.pat.groups + 1))

    def groupdict(self):
        return {name: self.group(name) for name in self.pat.groupindex}

    def __bool__(self):
        return True


REGISTRY = {}
