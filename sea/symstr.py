"""Bounded symbolic strings: `cap` characters as BitVec(8) + an Int length,
canonically zero padded.  All operations are merged (ite chains); nothing in
this file forks except __bool__/__iter__/int-indexing."""
import z3
from . import core
from .core import (SymBool, SymInt, Unsupported, Infeasible, lift, mk, ite,
                   sym_or, sym_and, sym_not)

MAXCAP = 96


def I(x):
    return lift(x)


def C(ch):
    return z3.BitVecVal(ord(ch) if isinstance(ch, str) else ch, 8)


Z = z3.BitVecVal(0, 8)

_CTX = z3.main_ctx()
_CREF = _CTX.ref()
_INTS = {}


def IV(k):
    """cached z3.IntVal"""
    r = _INTS.get(k)
    if r is None:
        r = _INTS[k] = z3.IntVal(k)
    return r


def fIf(c, a, b):
    """z3.If through the C API (no coercion: c Bool term, a/b terms of one sort)"""
    return a.__class__(z3.Z3_mk_ite(_CREF, c.ast, a.ast, b.ast), _CTX)


def fEq(a, b):
    return z3.BoolRef(z3.Z3_mk_eq(_CREF, a.ast, b.ast), _CTX)


def fLt(a, b):
    return z3.BoolRef(z3.Z3_mk_lt(_CREF, a.ast, b.ast), _CTX)


def zmax(a, b):
    return z3.If(a >= b, a, b)


def zmin(a, b):
    return z3.If(a <= b, a, b)


# str.isspace() / str.split() / str.strip() whitespace, ASCII part
WSCODES = [9, 10, 11, 12, 13, 28, 29, 30, 31, 32]
# str.splitlines() boundaries, ASCII part (\r handled separately: \r\n)
LINEBRK = [10, 11, 12, 13, 28, 29, 30]


def _isws(c):
    return z3.Or([c == w for w in WSCODES])


def _simp(x):
    return z3.simplify(x)


class SymStr:
    def __init__(self, cs, n, lo=0):
        self.cs = list(cs)
        self.n = n           # python int, SymInt or z3 ArithRef
        if isinstance(n, SymInt):
            self.n = n.e
        self.cap = len(self.cs)
        # guaranteed lower bound of the length (python int); only ever used to
        # skip case distinctions that cannot arise
        self.lo = self.n if isinstance(self.n, int) else max(0, min(lo, self.cap))
        if self.cap > MAXCAP:
            raise Unsupported('string capacity %d exceeds %d' % (self.cap, MAXCAP))

    # ---- construction
    @staticmethod
    def fresh(name, cap, alphabet=None, minlen=0, exclude=()):
        """-> (SymStr, constraints).  alphabet: iterable of chars (None = 1..127)"""
        cs = [z3.BitVec('%s_%d' % (name, i), 8) for i in range(cap)]
        n = z3.Int('%s_n' % name)
        cons = [n >= minlen, n <= cap]
        for i, c in enumerate(cs):
            if alphabet is None:
                ok = z3.And(z3.UGE(c, 1), z3.ULE(c, 127))
                if exclude:
                    ok = z3.And([ok] + [c != C(x) for x in exclude])
            else:
                ok = z3.Or([c == C(a) for a in alphabet if a not in exclude])
            cons.append(z3.If(i < n, ok, c == Z))
        return SymStr(cs, n, lo=minlen), cons

    @staticmethod
    def of(x):
        if isinstance(x, SymStr):
            return x
        if isinstance(x, str):
            if any(ord(c) > 255 for c in x):
                raise Unsupported('non-latin1 literal')
            return SymStr([C(c) for c in x], len(x))
        raise Unsupported('SymStr.of(%r)' % type(x))

    def nz(self):
        return z3.IntVal(self.n) if isinstance(self.n, int) else self.n

    def const(self):
        """python str if fully concrete else None"""
        n = self.n
        if not isinstance(n, int):
            n = _simp(n)
            if not z3.is_int_value(n):
                return None
            n = n.as_long()
        out = []
        for c in self.cs[:n]:
            if not z3.is_bv_value(c):
                c = _simp(c)
                if not z3.is_bv_value(c):
                    return None
            out.append(chr(c.as_long()))
        return ''.join(out)

    def at(self, idx):
        """char at symbolic/concrete index (0 if out of range)"""
        if isinstance(idx, int):
            return self.cs[idx] if 0 <= idx < self.cap else Z
        idx = _simp(idx)
        if z3.is_int_value(idx):
            return self.at(idx.as_long())
        r = Z
        for k in reversed(range(self.cap)):
            ck = self.cs[k]
            if ck is r:
                continue
            if not isinstance(ck, z3.BitVecRef):
                ck = C(ck)
            r = z3.BitVecRef(z3.Z3_mk_ite(_CREF, fEq(idx, IV(k)).ast, ck.ast, r.ast), _CTX)
        return r

    def concrete(self, model):
        n = model.eval(self.nz(), model_completion=True).as_long()
        n = max(0, min(n, self.cap))
        return ''.join(chr(model.eval(c, model_completion=True).as_long()) for c in self.cs[:n])

    # ---- python protocol
    def __eq__(self, o):
        if not isinstance(o, (str, SymStr)):
            return False
        o = SymStr.of(o)
        m = max(self.cap, o.cap)
        return mk(z3.And([self.nz() == o.nz()] + [self.at(k) == o.at(k) for k in range(m)]))

    def __ne__(self, o):
        r = self.__eq__(o)
        return (not r) if isinstance(r, bool) else ~r

    def __hash__(self):
        # only a string whose value is fixed can be a dict key / set member;
        # it hashes like the equal python str
        return hash(self.concretize())

    def concretize(self):
        """python str value; a string that is not syntactically fixed is
        concretised by forking over its feasible values (usually exactly one:
        the path condition determines it)"""
        c = self.const()
        if c is not None:
            return c
        e = core.ex()
        for _ in range(64):
            if e.check() != z3.sat:
                raise Infeasible()
            v = self.concrete(e.solver.model())
            if e.branch((self == v).e if not isinstance(self == v, bool) else z3.BoolVal(self == v)):
                return v
        raise Unsupported('string with more than 64 feasible values used as a dict key')

    def __bool__(self):
        return bool(mk(self.nz() > 0))

    def sea_len(self):
        return mk(self.nz())

    def __len__(self):
        n = self.sea_len()
        if isinstance(n, int):
            return n
        raise Unsupported('len() of a symbolic string escaped instrumentation')

    def __str__(self):
        c = self.const()
        if c is not None:
            return c
        raise Unsupported('str() of a symbolic string escaped instrumentation')

    def __repr__(self):
        c = self.const()
        return 'SymStr(%r)' % c if c is not None else 'SymStr(<cap %d>)' % self.cap

    def __format__(self, spec):
        c = self.const()
        return c if c is not None else '<symstr>'

    def sea_repr(self):
        c = self.const()
        if c is not None:
            return repr(c)
        raise Unsupported('repr of a symbolic string')

    def __add__(self, o):
        if not isinstance(o, (str, SymStr)):
            return NotImplemented
        o = SymStr.of(o)
        if o.cap == 0:
            return self
        if self.cap == 0:
            return o
        cap = self.cap + o.cap
        if isinstance(self.n, int):
            cs = self.cs[:self.n] + o.cs
            cs += [Z] * (cap - len(cs))
            return SymStr(cs[:self.n + o.cap], (self.n + o.n) if isinstance(o.n, int) else _simp(self.n + o.nz()),
                          lo=self.n + o.lo)
        n = self.nz()
        cs = [self.cs[k] if k < self.lo else _simp(z3.If(k < n, self.at(k), o.at(k - n))) for k in range(cap)]
        return SymStr(cs, _simp(n + o.nz()), lo=self.lo + o.lo)

    def __radd__(self, o):
        if not isinstance(o, (str, SymStr)):
            return NotImplemented
        return SymStr.of(o).__add__(self)

    def __mul__(self, k):
        if isinstance(k, int):
            out = SymStr.of('')
            for _ in range(k):
                out = out + self
            return out
        raise Unsupported('str * symbolic')
    __rmul__ = __mul__

    def _norm_idx(self, i, default):
        n = self.nz()
        if i is None:
            return default
        i = I(i)
        i = z3.If(i < 0, i + n, i)
        return zmin(zmax(i, 0), n)

    def __getitem__(self, key):
        n = self.nz()
        if isinstance(key, slice):
            if key.step is not None:
                raise Unsupported('slice step')
            c = self.const()
            if c is not None and not core.is_symbolic(key.start) and not core.is_symbolic(key.stop):
                return SymStr.of(c[key])
            a = _simp(self._norm_idx(key.start, z3.IntVal(0)))
            b = _simp(self._norm_idx(key.stop, n))
            ln = _simp(zmax(b - a, 0))
            if z3.is_int_value(a) and a.as_long() == 0:
                # prefix: reuse characters
                cs = [_simp(z3.If(k < ln, self.cs[k], Z)) for k in range(self.cap)]
            else:
                cs = [_simp(z3.If(k < ln, self.at(a + k), Z)) for k in range(self.cap)]
            # trim capacity when the maximal length is known
            cap = self.cap
            if z3.is_int_value(a):
                cap = max(0, self.cap - a.as_long())
            if z3.is_int_value(ln):
                cap = min(cap, ln.as_long())
            ln2 = ln.as_long() if z3.is_int_value(ln) else ln
            return SymStr(cs[:cap], ln2)
        # integer index: fork on range, IndexError like python
        i = I(key)
        i = z3.If(i < 0, i + n, i)
        ok = mk(z3.And(i >= 0, i < n))
        if not ok:
            raise IndexError('string index out of range')
        return SymStr([_simp(self.at(i))], 1)

    def __iter__(self):
        k = 0
        while True:
            more = mk(z3.IntVal(k) < self.nz())
            if not more:
                return
            yield SymStr([self.cs[k]], 1)
            k += 1

    def startswith(self, w, start=None):
        if start is not None:
            return self[start:].startswith(w)
        if isinstance(w, tuple):
            return sym_or(*[self.startswith(x) for x in w])
        w = SymStr.of(w)
        return mk(z3.And([w.nz() <= self.nz()] +
                         [z3.Implies(k < w.nz(), self.at(k) == w.cs[k]) for k in range(w.cap)]))

    def endswith(self, w):
        if isinstance(w, tuple):
            return sym_or(*[self.endswith(x) for x in w])
        w = SymStr.of(w)
        off = self.nz() - w.nz()
        return mk(z3.And([off >= 0] +
                         [z3.Implies(k < w.nz(), self.at(off + k) == w.cs[k]) for k in range(w.cap)]))

    def _match_at(self, w, p):
        return [z3.Implies(k < w.nz(), self.at(p + k) == w.cs[k]) for k in range(w.cap)]

    def find(self, w, start=None, end=None):
        w = SymStr.of(w)
        n = self.nz()
        s0 = I(start) if start is not None else z3.IntVal(0)
        s0 = z3.If(s0 < 0, zmax(s0 + n, 0), s0)
        e0 = self._norm_idx(end, n)
        r = z3.IntVal(-1)
        for p in reversed(range(self.cap + 1)):
            m = z3.And([p >= s0, p + w.nz() <= e0, p <= n] + self._match_at(w, p))
            r = z3.If(m, p, r)
        return mk(r)

    def rfind(self, w, start=None, end=None):
        w = SymStr.of(w)
        n = self.nz()
        s0 = I(start) if start is not None else z3.IntVal(0)
        s0 = z3.If(s0 < 0, zmax(s0 + n, 0), s0)
        e0 = self._norm_idx(end, n)
        r = z3.IntVal(-1)
        for p in range(self.cap + 1):
            m = z3.And([p >= s0, p + w.nz() <= e0, p <= n] + self._match_at(w, p))
            r = z3.If(m, p, r)
        return mk(r)

    def index(self, w, *a):
        r = self.find(w, *a)
        if r < 0:
            raise ValueError('substring not found')
        return r

    def count(self, w):
        w = SymStr.of(w)
        wc = w.const()
        if wc is None or len(wc) == 0:
            raise Unsupported('count of a symbolic or empty needle')
        n = self.nz()
        if len(wc) > 1:
            # non-overlapping occurrences, scanning left to right (str.count)
            L = len(wc)
            free = z3.IntVal(0)
            takes = []
            for i in range(self.cap - L + 1):
                m = z3.And([i + L <= n] + [self.cs[i + k] == C(wc[k]) for k in range(L)])
                t = z3.And(m, free <= i)
                takes.append(z3.If(t, 1, 0))
                free = z3.If(t, z3.IntVal(i + L), free)
            return mk(z3.Sum(takes + [z3.IntVal(0)]))
        return mk(z3.Sum([z3.If(z3.And(i < n, self.cs[i] == C(wc)), 1, 0) for i in range(self.cap)]
                         + [z3.IntVal(0)]))

    def __contains__(self, w):
        return self.find(w) >= 0

    def contains(self, w):
        return self.find(w) >= 0

    # ---- character class helpers
    def isspace(self):
        n = self.nz()
        return mk(z3.And([n > 0] + [z3.Implies(i < n, _isws(self.cs[i])) for i in range(self.cap)]))

    def lower(self):
        cs = [z3.If(z3.And(z3.UGE(c, 65), z3.ULE(c, 90)), c + 32, c) for c in self.cs]
        return SymStr([_simp(c) for c in cs], self.n)

    def upper(self):
        cs = [z3.If(z3.And(z3.UGE(c, 97), z3.ULE(c, 122)), c - 32, c) for c in self.cs]
        return SymStr([_simp(c) for c in cs], self.n)

    def _strip(self, left=True, right=True, chars=None):
        n = self.nz()
        cap = self.cap
        if chars is None:
            isw = _isws
        else:
            cc = SymStr.of(chars).const()
            if cc is None:
                raise Unsupported('strip(symbolic chars)')
            isw = lambda c: z3.Or([c == C(x) for x in cc] + [z3.BoolVal(False)])
        a = z3.IntVal(0)
        if left:
            run = z3.BoolVal(True)
            for k in range(cap):
                run = z3.And(run, k < n, isw(self.cs[k]))
                a = a + z3.If(run, 1, 0)
        b = n
        if right:
            # trail[i]: position i belongs to the strippable run that ends the
            # string (one linear pass instead of cap symbolic look-ups)
            trail = z3.BoolVal(False)
            t = z3.IntVal(0)
            for i in reversed(range(cap)):
                ci = self.cs[i]
                w = _simp(isw(ci))
                if z3.is_false(w):
                    if i < self.lo:
                        break          # a surviving character below the guaranteed length
                    trail = z3.BoolVal(False)
                    continue
                last = (n == i + 1)
                trail = z3.And(i < n, w, z3.Or(last, trail)) if i >= self.lo else z3.And(w, z3.Or(last, trail))
                t = t + z3.If(trail, 1, 0)
            b = zmax(n - t, a)
        a = _simp(a)
        b = _simp(b)
        if z3.is_int_value(a) and a.as_long() == 0 and not z3.is_int_value(b):
            # nothing stripped on the left: keep the characters that are known to
            # survive (up to the last concrete non-strippable one below `lo`)
            lo2 = 0
            for k in range(min(self.lo, cap)):
                ck = self.cs[k]
                if z3.is_bv_value(ck) and z3.is_false(_simp(isw(ck))):
                    lo2 = k + 1
            cs = [self.cs[k] if k < lo2 else _simp(z3.If(k < b, self.cs[k], Z)) for k in range(cap)]
            return SymStr(cs, b, lo=lo2)
        return self[SymInt(a):SymInt(b)]

    def strip(self, chars=None):
        return self._strip(True, True, chars)

    def lstrip(self, chars=None):
        return self._strip(True, False, chars)

    def rstrip(self, chars=None):
        return self._strip(False, True, chars)

    def expandtabs(self, tabsize=8):
        """CPython semantics: column resets after \\n and \\r."""
        if self.const() is not None:
            return SymStr.of(self.const().expandtabs(tabsize))
        n = self.nz()
        hastab = z3.Or([z3.And(i < n, self.cs[i] == 9) for i in range(self.cap)] + [z3.BoolVal(False)])
        if core.ex().check(hastab) == z3.unsat:
            return self
        emits = []
        col = z3.IntVal(0)
        for i in range(self.cap):
            c = self.cs[i]
            live = i < n
            istab = z3.And(live, c == 9)
            pad = tabsize - (col % tabsize)
            for t in range(tabsize):
                emits.append((z3.And(istab, t < pad), C(' ')))
            emits.append((z3.And(live, c != 9), c))
            col = _simp(z3.If(istab, col + pad,
                              z3.If(z3.Or(c == 10, c == 13), z3.IntVal(0), col + 1)))
        return compact_emits(emits, min(MAXCAP, self.cap * tabsize))

    def replace(self, old, new, count=-1):
        old = SymStr.of(old).const()
        new = SymStr.of(new).const()
        if old is None or new is None or count != -1:
            raise Unsupported('replace with symbolic pattern')
        c = self.const()
        if c is not None:
            return SymStr.of(c.replace(old, new))
        if len(old) == 0:
            raise Unsupported('replace of empty string')
        n = self.nz()
        L = len(old)
        active = [z3.BoolVal(False)] * (self.cap + L + 1)
        active[0] = z3.BoolVal(True)
        emits = []
        for p in range(self.cap):
            a = _simp(z3.And(active[p], p < n))
            if z3.is_false(a):
                continue
            m = z3.And([p + L <= n] + [self.at(p + k) == C(old[k]) for k in range(L)])
            hit = _simp(z3.And(a, m))
            miss = _simp(z3.And(a, z3.Not(m)))
            for ch in new:
                emits.append((hit, C(ch)))
            emits.append((miss, self.cs[p]))
            active[p + L] = z3.Or(active[p + L], hit)
            active[p + 1] = z3.Or(active[p + 1], miss)
        grow = max(1, (len(new) + L - 1) // L) if len(new) > L else 1
        return compact_emits(emits, min(MAXCAP, self.cap * grow))

    # ---- splitting
    def splitlines(self, keepends=False):
        c = self.const()
        if c is not None:
            return [SymStr.of(x) for x in c.splitlines(keepends)]
        n = self.nz()
        cap = self.cap
        cr = z3.Or([z3.And(i < n, self.cs[i] == 13) for i in range(cap)] + [z3.BoolVal(False)])
        if core.ex().check(cr) != z3.unsat:
            raise Unsupported('carriage return in splitlines (\\r\\n not modelled)')
        nl = [z3.And(i < n, z3.Or([self.cs[i] == c for c in LINEBRK if c != 13])) for i in range(cap)]
        cnt = [z3.IntVal(0)]
        for i in range(cap):
            cnt.append(cnt[-1] + z3.If(nl[i], 1, 0))
        b = []
        e = []
        guard = []
        for k in range(cap + 1):
            bk = z3.IntVal(0) if k == 0 else z3.IntVal(cap + 1)
            ek = n
            for i in reversed(range(cap)):
                if k > 0:
                    bk = z3.If(z3.And(nl[i], cnt[i] == k - 1), z3.IntVal(i + 1), bk)
                ek = z3.If(z3.And(nl[i], cnt[i] == k), z3.IntVal(i + 1 if keepends else i), ek)
            b.append(_simp(bk))
            e.append(_simp(ek))
            guard.append(_simp(bk < n) if k else _simp(n > 0))
        return SegList(self, b, e, guard, 0 if keepends else 1)

    def split(self, sep=None, maxsplit=-1):
        c = self.const()
        if c is not None and (sep is None or isinstance(sep, str)):
            return [SymStr.of(x) for x in c.split(sep, maxsplit)]
        if sep is not None:
            sepc = SymStr.of(sep).const()
            if sepc is None or len(sepc) == 0:
                raise Unsupported('split(symbolic separator)')
            if maxsplit is not None and not isinstance(maxsplit, int):
                raise Unsupported('split(symbolic maxsplit)')
            if maxsplit >= 0 or len(sepc) != 1:
                # left to right, one fork per cut ("is there another separator?")
                out, rest = [], self
                k = 0
                while maxsplit < 0 or k < maxsplit:
                    i = rest.find(sepc)
                    if not (i >= 0):
                        break
                    out.append(rest[:i])
                    rest = rest[i + len(sepc):]
                    k += 1
                    if k > self.cap:
                        break
                out.append(rest)
                return out
            return self._split_char(sepc)
        if maxsplit != -1:
            raise Unsupported('split(maxsplit)')
        return self._split_ws()

    def rsplit(self, sep=None, maxsplit=-1):
        c = self.const()
        if c is not None and (sep is None or isinstance(sep, str)):
            return [SymStr.of(x) for x in c.rsplit(sep, maxsplit)]
        if sep is None:
            raise Unsupported('rsplit() on whitespace')
        sepc = SymStr.of(sep).const()
        if sepc is None or len(sepc) == 0 or not isinstance(maxsplit, int):
            raise Unsupported('rsplit(symbolic separator / maxsplit)')
        if maxsplit < 0:
            return self.split(sepc)
        out, rest = [], self
        k = 0
        while k < maxsplit:
            i = rest.rfind(sepc)
            if not (i >= 0):
                break
            out.insert(0, rest[i + len(sepc):])
            rest = rest[:i]
            k += 1
        out.insert(0, rest)
        return out

    def partition(self, sep):
        sepc = SymStr.of(sep).const()
        if sepc is None or len(sepc) == 0:
            raise Unsupported('partition(symbolic separator)')
        i = self.find(sepc)
        if i >= 0:
            return (self[:i], SymStr.of(sepc), self[i + len(sepc):])
        return (self, SymStr.of(''), SymStr.of(''))

    def rpartition(self, sep):
        sepc = SymStr.of(sep).const()
        if sepc is None or len(sepc) == 0:
            raise Unsupported('rpartition(symbolic separator)')
        i = self.rfind(sepc)
        if i >= 0:
            return (self[:i], SymStr.of(sepc), self[i + len(sepc):])
        return (SymStr.of(''), SymStr.of(''), self)

    def _split_char(self, ch):
        n = self.nz()
        cap = self.cap
        nl = [z3.And(i < n, self.cs[i] == C(ch)) for i in range(cap)]
        cnt = [z3.IntVal(0)]
        for i in range(cap):
            cnt.append(cnt[-1] + z3.If(nl[i], 1, 0))
        b, e, guard = [], [], []
        for k in range(cap + 1):
            bk = z3.IntVal(0) if k == 0 else z3.IntVal(cap + 1)
            ek = n
            gk = z3.BoolVal(True) if k == 0 else z3.BoolVal(False)
            for i in reversed(range(cap)):
                if k > 0:
                    c = z3.And(nl[i], cnt[i] == k - 1)
                    bk = z3.If(c, z3.IntVal(i + 1), bk)
                    gk = z3.Or(gk, c)
                ek = z3.If(z3.And(nl[i], cnt[i] == k), z3.IntVal(i), ek)
            b.append(_simp(bk))
            e.append(_simp(ek))
            guard.append(_simp(gk))
        return SegList(self, b, e, guard, 1)

    def _split_ws(self):
        n = self.nz()
        cap = self.cap
        ws = [z3.And(i < n, _isws(self.cs[i])) for i in range(cap)]
        non = [z3.And(i < n, z3.Not(_isws(self.cs[i]))) for i in range(cap)]
        start = [z3.And(non[i], ws[i - 1] if i else z3.BoolVal(True)) for i in range(cap)]
        cnt = [z3.IntVal(0)]
        for i in range(cap):
            cnt.append(cnt[-1] + z3.If(start[i], 1, 0))
        K = (cap + 1) // 2
        wend = [None] * (cap + 1)
        wend[cap] = z3.IntVal(cap)
        for i in reversed(range(cap)):
            wend[i] = z3.If(non[i], wend[i + 1], z3.IntVal(i))
        b, e, guard = [], [], []
        for k in range(K):
            bk = z3.IntVal(cap + 1)
            ek = z3.IntVal(cap + 1)
            gk = z3.BoolVal(False)
            for i in reversed(range(cap)):
                c = z3.And(start[i], cnt[i] == k)
                bk = z3.If(c, z3.IntVal(i), bk)
                ek = z3.If(c, zmin(wend[i], n), ek)
                gk = z3.Or(gk, c)
            b.append(_simp(bk))
            e.append(_simp(ek))
            guard.append(_simp(gk))
        return SegList(self, b, e, guard, 1)


def compact_emits(emits, cap, checked=True):
    """emits: ordered list of (guard, char) -> SymStr of the guarded characters.
    checked=False: the caller knows statically that at most `cap` guards hold."""
    emits = [(_simp(g), c) for g, c in emits]
    emits = [(g, c) for g, c in emits if not z3.is_false(g)]
    pos = []
    acc = z3.IntVal(0)
    for g, c in emits:
        pos.append(acc)
        acc = acc + z3.If(g, 1, 0)
    cap = min(cap, len(emits))
    cs = []
    for m in range(cap):
        r = Z
        for t in reversed(range(len(emits))):
            if t < m:
                break
            g, c = emits[t]
            r = z3.If(z3.And(g, pos[t] == m), c, r)
        cs.append(_simp(r))
    total = _simp(acc)
    if checked and len(emits) > cap:
        # clamp must be checked, never assumed
        if core.ex().check(total > cap) != z3.unsat:
            raise Unsupported('string grows beyond capacity %d' % cap)
    return SymStr(cs, total.as_long() if z3.is_int_value(total) else total)


class SegList:
    """list of segments of one base SymStr: seg k = base[b[k]:e[k]], present iff guard[k]."""

    def __init__(self, base, b, e, guard, gap=0):
        self.base = base
        self.b = b
        self.e = e
        self.guard = guard
        self.gap = gap   # minimal number of base characters between two segments

    def sea_len(self):
        return mk(z3.Sum([z3.If(g, 1, 0) for g in self.guard] + [z3.IntVal(0)]))

    def __len__(self):
        n = self.sea_len()
        if isinstance(n, int):
            return n
        raise Unsupported('len() of symbolic list escaped instrumentation')

    def seg(self, k):
        return self.base[SymInt(self.b[k]):SymInt(self.e[k])]

    def filter(self, fn):
        g2 = []
        for k in range(len(self.guard)):
            if z3.is_false(_simp(self.guard[k])):
                g2.append(z3.BoolVal(False))
                continue
            keep = fn(self.seg(k))
            g2.append(_simp(z3.And(self.guard[k], lift(keep))))
        return SegList(self.base, self.b, self.e, g2, self.gap)

    def join(self, sep):
        sep = SymStr.of(sep)
        sepc = sep.const()
        if sepc is None:
            raise Unsupported('join with symbolic separator')
        base = self.base
        emits = []
        seen = z3.BoolVal(False)
        for k in range(len(self.guard)):
            g = self.guard[k]
            if z3.is_false(_simp(g)):
                continue
            for ch in sepc:
                emits.append((z3.And(g, seen), C(ch)))
            for i in range(base.cap):
                emits.append((z3.And(g, self.b[k] <= i, i < self.e[k]), base.cs[i]))
            seen = z3.Or(seen, g)
        if len(sepc) <= self.gap:
            return compact_emits(emits, base.cap, checked=False)
        return compact_emits(emits, min(MAXCAP, base.cap + len(sepc) * max(0, len(self.guard) - 1)))

    def __iter__(self):
        for k in range(len(self.guard)):
            g = mk(self.guard[k])
            if g:
                yield self.seg(k)

    def to_list(self):
        return list(iter(self))

    def __getitem__(self, i):
        return self.to_list()[i]


class SymList:
    """bounded list of SymStr with symbolic length (front elements valid)."""

    def __init__(self, elems, n):
        self.elems = list(elems)
        self.n = n.e if isinstance(n, SymInt) else n

    def nz(self):
        return z3.IntVal(self.n) if isinstance(self.n, int) else self.n

    def sea_len(self):
        return mk(self.nz())

    def __len__(self):
        n = self.sea_len()
        if isinstance(n, int):
            return n
        raise Unsupported('len() of symbolic list escaped instrumentation')

    def _sel(self, idx):
        cap = max(e.cap for e in self.elems)
        idx = _simp(idx)
        if z3.is_int_value(idx):
            return self.elems[idx.as_long()]
        cs = []
        for k in range(cap):
            r = Z
            for j in reversed(range(len(self.elems))):
                r = z3.If(idx == j, self.elems[j].at(k), r)
            cs.append(_simp(r))
        ln = z3.IntVal(0)
        for j in reversed(range(len(self.elems))):
            ln = z3.If(idx == j, self.elems[j].nz(), ln)
        return SymStr(cs, _simp(ln))

    def __getitem__(self, i):
        if not isinstance(i, int):
            raise Unsupported('SymList index')
        return self._sel(z3.IntVal(i) if i >= 0 else self.nz() + i)

    def __delitem__(self, i):
        if i == 0:
            self.elems = self.elems[1:] + [SymStr.of('')]
        elif i == -1:
            pass
        else:
            raise Unsupported('SymList del')
        self.n = _simp(self.nz() - 1)

    def __iter__(self):
        k = 0
        while True:
            more = mk(z3.IntVal(k) < self.nz())
            if not more:
                return
            yield self.elems[k]
            k += 1


class JoinedLines(SymStr):
    """'\\n'.join(lines) where no line contains a line break; the flat text is
    never materialised, line-wise operations act on the lines."""

    def __init__(self, lines):
        self.lines = [SymStr.of(l) for l in lines]
        self.cs = []
        self.n = 0
        self.cap = 0

    def const(self):
        cs = [l.const() for l in self.lines]
        if any(c is None for c in cs):
            return None
        return '\n'.join(cs)

    def splitlines(self, keepends=False):
        if keepends:
            raise Unsupported('JoinedLines.splitlines(keepends)')
        return list(self.lines)

    def expandtabs(self, tabsize=8):
        return JoinedLines([l.expandtabs(tabsize) for l in self.lines])

    def __eq__(self, o):
        raise Unsupported('JoinedLines ==')

    def __bool__(self):
        if len(self.lines) > 1:
            return True
        return bool(self.lines[0]) if self.lines else False

    def __getitem__(self, k):
        raise Unsupported('JoinedLines[]')

    def sea_len(self):
        raise Unsupported('len(JoinedLines)')


def sea_len(x):
    if hasattr(x, 'sea_len'):
        return x.sea_len()
    return len(x)


def sym_join(sep, items):
    if isinstance(items, SegList):
        return items.join(sep)
    items = list(items)
    if isinstance(sep, str) and all(isinstance(i, str) for i in items):
        return sep.join(items)
    if isinstance(sep, str) and all(isinstance(i, (str, SymStr)) for i in items):
        # value-concrete proxies (e.g. text that went through the capture stub)
        vals = [i if isinstance(i, str) else i.const() for i in items]
        if all(v is not None for v in vals):
            return sep.join(vals)
    if sep == '\n' and items and all(isinstance(i, (str, SymStr)) for i in items) and getattr(sym_join, 'lines_mode', False):
        return JoinedLines(items)
    out = SymStr.of('')
    for k, it in enumerate(items):
        if k:
            out = out + sep
        out = out + it
    return out


def spaces(k, cap):
    """' ' * k for a symbolic k in [0, cap]"""
    k = lift(k)
    cs = [_simp(z3.If(i < k, C(' '), Z)) for i in range(cap)]
    return SymStr(cs, k)


def dedent_identity_cond(s):
    """z3 Bool: textwrap.dedent(s) == s, i.e. (a) no line consists of blanks
    (space/tab) only, and (b) the common margin is empty because some line
    with content starts with a non-blank character (or no line has content)."""
    s = SymStr.of(s)
    n = s.nz()
    cap = s.cap
    sp = [z3.Or(c == C(' '), c == C('\t')) for c in s.cs]
    nl = [c == C('\n') for c in s.cs]
    # blank_to_eol[i]: s[i] is a blank and only blanks follow up to the line end
    bte = [None] * (cap + 1)
    bte[cap] = z3.BoolVal(False)
    for i in reversed(range(cap)):
        at_end = z3.Or(n == i + 1, nl[i + 1] if i + 1 < cap else z3.BoolVal(True))
        bte[i] = z3.And(i < n, sp[i], z3.Or(at_end, bte[i + 1]))
    starts = [z3.BoolVal(True) if i == 0 else nl[i - 1] for i in range(cap)]
    no_ws_only = z3.And([z3.Not(z3.And(starts[i], bte[i])) for i in range(cap)])
    # a line with content that starts with a non-blank
    flush = z3.Or([z3.And(starts[i], i < n, z3.Not(sp[i]), z3.Not(nl[i])) for i in range(cap)])
    # any line with content that starts with a blank (only then a margin exists)
    indented = z3.Or([z3.And(starts[i], i < n, sp[i], z3.Not(bte[i])) for i in range(cap)])
    # two content lines that start with different blank characters also leave
    # an empty common margin
    sp_start = z3.Or([z3.And(starts[i], i < n, s.cs[i] == C(' '), z3.Not(bte[i])) for i in range(cap)])
    tab_start = z3.Or([z3.And(starts[i], i < n, s.cs[i] == C('\t'), z3.Not(bte[i])) for i in range(cap)])
    return z3.And(no_ws_only, z3.Or(flush, z3.Not(indented), z3.And(sp_start, tab_start)))


def sym_select(idx, options):
    """merged choice: the string options[idx] for a z3 Int / SymInt index
    (idx is assumed to range over 0..len(options)-1); nothing forks"""
    idx = I(idx)
    opts = [SymStr.of(o) for o in options]
    cap = max(o.cap for o in opts)
    cs = []
    for k in range(cap):
        r = opts[-1].cs[k] if k < opts[-1].cap else Z
        for j in reversed(range(len(opts) - 1)):
            c = opts[j].cs[k] if k < opts[j].cap else Z
            r = z3.If(idx == j, c, r)
        cs.append(_simp(r))
    n = opts[-1].nz()
    for j in reversed(range(len(opts) - 1)):
        n = z3.If(idx == j, opts[j].nz(), n)
    return SymStr(cs, _simp(n), lo=min(o.lo for o in opts))


def sym_ite(cond, a, b):
    """merged choice between two strings on a z3 Bool / SymBool"""
    c = I(cond)
    return sym_select(z3.If(c, 0, 1), [a, b])
