"""Import hook that instruments xdoctest's modules from the repository's
CURRENT source at import time (nothing is cached, /repo is never written)."""
import ast
import builtins
import importlib.abc
import importlib.machinery
import os
import sys
import types
import re as real_re

from . import core
from .core import SymBool, SymInt, Unsupported, sym_not, sym_min, sym_max
from .symstr import SymStr, SymList, SegList, JoinedLines, sea_len, sym_join
from . import symre


def is_sym(x):
    if isinstance(x, (SymStr, SymList, SegList, SymInt, SymBool)):
        return True
    if isinstance(x, (list, tuple)):
        return any(is_sym(y) for y in x)
    return False


_STR_METHS = {'join', 'format', 'startswith', 'endswith', 'find', 'rfind', 'index',
              'count', 'replace', 'split', 'rsplit', 'partition', 'rpartition', 'strip', 'lstrip', 'rstrip', 'ljust', 'rjust'}


class Runtime:
    def __init__(self):
        self.STUBS = {}
        self.entered = set()
        self.assumed = set()
        self.record = True

    # --- evidence: which real functions ran symbolically
    def enter(self, name):
        if self.record:
            self.entered.add(name)

    # --- builtins
    def len(self, x):
        return sea_len(x)

    def repr(self, x):
        if hasattr(x, 'sea_repr'):
            return x.sea_repr()
        return repr(x)

    def str(self, x=''):
        if isinstance(x, SymStr):
            return x
        if hasattr(x, 'sea_str'):
            return x.sea_str()
        if isinstance(x, (SymInt, SymBool)):
            raise Unsupported('str() of a symbolic number')
        return str(x)

    def int(self, x=0, *a):
        if isinstance(x, SymInt):
            return x
        if isinstance(x, SymBool):
            return core.ite(x, 1, 0)
        if isinstance(x, SymStr):
            c = x.const()
            if c is None:
                raise Unsupported('int() of a symbolic string')
            return int(c, *a)
        return int(x, *a)

    def bool(self, x=False):
        if isinstance(x, SymBool):
            return x
        return bool(x)

    def isinstance(self, x, t):
        ts = t if isinstance(t, tuple) else (t,)
        if isinstance(x, SymStr) and str in ts:
            return True
        if isinstance(x, SymInt) and int in ts:
            return True
        if isinstance(x, SymBool) and (bool in ts or int in ts):
            return True
        return isinstance(x, t)

    def _mm(self, fn, symfn, a, k):
        if len(a) == 1 and not isinstance(a[0], SymInt):
            vals = list(a[0])
            if not k and any(isinstance(v, SymInt) for v in vals):
                return symfn(vals)
            return fn(vals, **k)
        if not k and any(isinstance(v, SymInt) for v in a):
            return symfn(list(a))
        return fn(*a, **k)

    def min(self, *a, **k):
        return self._mm(min, sym_min, a, k)

    def max(self, *a, **k):
        return self._mm(max, sym_max, a, k)

    def sum(self, it, start=0):
        r = start
        for x in it:
            r = r + x
        return r

    def compile(self, *a, **k):
        return self.STUBS.get('compile', compile)(*a, **k)

    def exec(self, *a, **k):
        return self.STUBS.get('exec', exec)(*a, **k)

    def eval(self, *a, **k):
        return self.STUBS.get('eval', eval)(*a, **k)

    def print(self, *a, **k):
        f = self.STUBS.get('print')
        if f is not None:
            return f(*a, **k)
        if is_sym(a):
            a = tuple(x.const() if isinstance(x, SymStr) and x.const() is not None else
                      ('<sym>' if is_sym(x) else x) for x in a)
        return print(*a, **k)

    # --- operators
    def not_(self, x):
        return sym_not(x) if isinstance(x, SymBool) else (not x)

    def listcomp(self, it, elt, cond):
        if isinstance(it, SegList):
            return it.filter(cond) if cond else it
        return [elt(x) for x in it if (cond is None or cond(x))]

    def contains(self, container, item, neg):
        if is_sym(item) and isinstance(container, (set, frozenset, list, tuple, dict)):
            r = False
            for el in container:
                e = (item == el)
                if isinstance(e, bool):
                    if e:
                        r = True
                        break
                else:
                    r = e if r is False else (r | e)
            res = r
        elif isinstance(container, str) and isinstance(item, SymStr):
            res = SymStr.of(container).contains(item)
        elif isinstance(container, SymStr):
            res = container.contains(item)
        elif isinstance(container, (list, tuple, set, frozenset)) and any(is_sym(el) for el in container):
            r = False
            for el in container:
                e = (el == item)
                if isinstance(e, bool):
                    if e:
                        r = True
                        break
                else:
                    r = e if r is False else (r | e)
            res = r
        else:
            res = item in container
        if neg:
            return (not res) if isinstance(res, bool) else ~res
        return res

    def callmeth(self, obj, name, *a, **k):
        if isinstance(obj, str) and (is_sym(a) or is_sym(list(k.values()))):
            if name == 'join':
                return sym_join(obj, a[0])
            if name == 'format':
                f = self.STUBS.get('format')
                if f is not None:
                    return f(obj, *a, **k)
                return '<fmt>'
            return getattr(SymStr.of(obj), name)(*a, **k)
        if name == 'join' and isinstance(obj, str) and isinstance(a[0], (SegList,)):
            return sym_join(obj, a[0])
        return getattr(obj, name)(*a, **k)


RT = Runtime()
builtins.__sea__ = RT


class ReShim(types.ModuleType):
    """`re` for instrumented modules: real on concrete input, model otherwise."""

    def __init__(self):
        super().__init__('re')
        self.__dict__.update({k: v for k, v in real_re.__dict__.items() if not k.startswith('__')})
        self.compile = self._sea_compile
        self.sub = lambda p, r, s, count=0, flags=0: self._sea_pat(p, flags).sub(r, s, count)
        self.split = lambda p, s, maxsplit=0, flags=0: self._sea_pat(p, flags).split(s, maxsplit)
        self.search = lambda p, s, flags=0: self._sea_pat(p, flags).search(s)
        self.match = lambda p, s, flags=0: self._sea_pat(p, flags).match(s)
        self.fullmatch = lambda p, s, flags=0: self._sea_pat(p, flags).fullmatch(s)
        self.findall = lambda p, s, flags=0: self._sea_pat(p, flags).findall(s)
        self.finditer = lambda p, s, flags=0: self._sea_pat(p, flags).finditer(s)

    def _sea_compile(self, p, flags=0):
        if isinstance(p, str):
            return symre.SymPattern(p, flags)
        return p

    def _sea_pat(self, p, flags):
        if isinstance(p, symre.SymPattern):
            return p
        if isinstance(p, SymStr):
            c = p.const()
            if c is None:
                raise Unsupported('symbolic regex pattern')
            p = c
        return symre.SymPattern(p, flags)


RESHIM = ReShim()


class TextwrapShim(types.ModuleType):
    """`textwrap` for instrumented modules.  dedent on a symbolic string is the
    identity under a CHECKED precondition (no blank-only line, empty common
    margin); where the precondition can fail the path is restricted to it and
    the restriction is recorded (RT.assumed) - it is part of the claim."""

    def __init__(self):
        import textwrap as real
        super().__init__('textwrap')
        self.__dict__.update({k: v for k, v in real.__dict__.items() if not k.startswith('__')})
        self._real = real
        self.dedent = self._sea_dedent

    def _sea_dedent(self, text):
        if not isinstance(text, SymStr):
            return self._real.dedent(text)
        c = text.const()
        if c is not None:
            return self._real.dedent(c)
        f = RT.STUBS.get('dedent')
        if f is not None:
            return f(text)
        import z3
        from .symstr import dedent_identity_cond
        cond = dedent_identity_cond(text)
        e = core.ex()
        if e.check(z3.Not(cond)) != z3.unsat:
            RT.assumed.add('textwrap.dedent is the identity on the symbolic text (no blank-only line, some line flush left)')
            e.assume_checked(cond)
        return text


TWSHIM = TextwrapShim()

CALL_BUILTINS = {'len', 'repr', 'str', 'int', 'bool', 'isinstance', 'min', 'max', 'sum',
                 'compile', 'exec', 'eval', 'print'}


def _sea_attr(name):
    return ast.Attribute(ast.Name('__sea__', ast.Load()), name, ast.Load())


class Transformer(ast.NodeTransformer):
    def __init__(self, modname, shadowed):
        self.modname = modname
        self.shadowed = shadowed
        self.scope = []

    def visit_FunctionDef(self, node):
        self.scope.append(node.name)
        self.generic_visit(node)
        qual = self.modname + '.' + '.'.join(self.scope)
        self.scope.pop()
        call = ast.Expr(ast.Call(_sea_attr('enter'), [ast.Constant(qual)], []))
        body = node.body
        k = 1 if (body and isinstance(body[0], ast.Expr) and isinstance(body[0].value, ast.Constant)
                  and isinstance(body[0].value.value, str)) else 0
        node.body = body[:k] + [call] + body[k:]
        return node
    visit_AsyncFunctionDef = visit_FunctionDef

    def visit_ClassDef(self, node):
        self.scope.append(node.name)
        self.generic_visit(node)
        self.scope.pop()
        return node

    def visit_Call(self, node):
        self.generic_visit(node)
        f = node.func
        if isinstance(f, ast.Name) and f.id in CALL_BUILTINS and f.id not in self.shadowed:
            node.func = ast.copy_location(_sea_attr(f.id), f)
            return node
        if (isinstance(f, ast.Attribute) and f.attr in _STR_METHS
                and not any(isinstance(a, ast.Starred) for a in node.args)
                and not any(kw.arg is None for kw in node.keywords)):
            return ast.copy_location(ast.Call(
                _sea_attr('callmeth'), [f.value, ast.Constant(f.attr)] + node.args, node.keywords), node)
        return node

    def visit_UnaryOp(self, node):
        self.generic_visit(node)
        if isinstance(node.op, ast.Not):
            return ast.copy_location(ast.Call(_sea_attr('not_'), [node.operand], []), node)
        return node

    def visit_ListComp(self, node):
        self.generic_visit(node)
        if (len(node.generators) == 1 and isinstance(node.generators[0].target, ast.Name)
                and len(node.generators[0].ifs) == 1
                and isinstance(node.elt, ast.Name) and node.elt.id == node.generators[0].target.id
                and not node.generators[0].is_async):
            g = node.generators[0]
            args = ast.arguments(posonlyargs=[], args=[ast.arg(g.target.id)], kwonlyargs=[],
                                 kw_defaults=[], defaults=[])
            elt = ast.Lambda(args, node.elt)
            cond = ast.Lambda(args, g.ifs[0])
            return ast.copy_location(ast.Call(_sea_attr('listcomp'), [g.iter, elt, cond], []), node)
        return node

    def visit_Compare(self, node):
        self.generic_visit(node)
        if len(node.ops) == 1 and isinstance(node.ops[0], (ast.In, ast.NotIn)):
            return ast.copy_location(ast.Call(
                _sea_attr('contains'),
                [node.comparators[0], node.left, ast.Constant(isinstance(node.ops[0], ast.NotIn))], []), node)
        return node

    def visit_Import(self, node):
        out = []
        for al in node.names:
            if al.name in ('re', 'textwrap'):
                out.append(ast.copy_location(
                    ast.ImportFrom('sea_shims', [ast.alias(al.name, al.asname)], 0), node))
            else:
                out.append(ast.copy_location(ast.Import([al]), node))
        return out


def _shadowed_names(tree):
    out = set()
    for n in ast.walk(tree):
        if isinstance(n, ast.Name) and isinstance(n.ctx, (ast.Store, ast.Del)) and n.id in CALL_BUILTINS:
            out.add(n.id)
        elif isinstance(n, ast.arg) and n.arg in CALL_BUILTINS:
            out.add(n.arg)
        elif isinstance(n, ast.alias) and (n.asname or n.name) in CALL_BUILTINS:
            out.add(n.asname or n.name)
        elif isinstance(n, (ast.FunctionDef, ast.ClassDef)) and n.name in CALL_BUILTINS:
            out.add(n.name)
    return out


class Loader(importlib.machinery.SourceFileLoader):
    instrumented = []

    def source_to_code(self, data, path, *, _optimize=-1):
        tree = ast.parse(data, path)
        modname = self.name
        tree = Transformer(modname, _shadowed_names(tree)).visit(tree)
        ast.fix_missing_locations(tree)
        Loader.instrumented.append(path)
        return compile(tree, path, 'exec', dont_inherit=True, optimize=_optimize)

    def get_code(self, fullname):
        # never use / write .pyc files
        path = self.get_filename(fullname)
        return self.source_to_code(self.get_data(path), path)


class Finder(importlib.abc.MetaPathFinder):
    def __init__(self, root):
        self.root = root

    def find_spec(self, name, path, target=None):
        if name != 'xdoctest' and not name.startswith('xdoctest.'):
            return None
        spec = importlib.machinery.PathFinder.find_spec(name, path if path else [self.root])
        if spec is None or not isinstance(spec.loader, importlib.machinery.SourceFileLoader):
            return spec
        spec.loader = Loader(spec.loader.name, spec.loader.path)
        return spec


def repo_root():
    return os.environ.get('VERIF_REPO', '/repo')


_installed = []


def install(root=None):
    """Install the instrumenting finder.  root: directory holding the
    `xdoctest` package (default $VERIF_REPO/src)."""
    if _installed:
        return _installed[0]
    root = root or os.path.join(repo_root(), 'src')
    if any(m == 'xdoctest' or m.startswith('xdoctest.') for m in sys.modules):
        raise RuntimeError('xdoctest imported before instrumentation')
    shims = types.ModuleType('sea_shims')
    shims.re = RESHIM
    shims.textwrap = TWSHIM
    sys.modules['sea_shims'] = shims
    sys.dont_write_bytecode = True
    sys.meta_path.insert(0, Finder(root))
    _installed.append(root)
    return root
