"""Differential validation of the hand-written models against CPython.

The symbolic model is built ONCE over fresh variables; every concrete sample
is then substituted into the resulting terms and simplified to a value, which
is compared with what CPython computes on the same input.  This is validation
of the encoding, never the deciding step."""
import itertools
import random
import z3
from . import core
from .core import SymBool, SymInt, Explorer
from .symstr import SymStr, SymList, SegList, C, Z


def _subst(term, binds):
    t = z3.substitute(term, *binds)
    return z3.simplify(t)


def _bind(sym, s):
    out = [(sym.nz(), z3.IntVal(len(s)))] if not isinstance(sym.n, int) else []
    for i, c in enumerate(sym.cs):
        out.append((c, C(s[i]) if i < len(s) else Z))
    return out


def concretize(val, binds):
    if isinstance(val, SymStr):
        n = _subst(val.nz(), binds)
        if not z3.is_int_value(n):
            raise AssertionError('length did not simplify: %s' % n)
        n = n.as_long()
        cs = []
        for c in val.cs[:n]:
            v = _subst(c, binds)
            if not z3.is_bv_value(v):
                raise AssertionError('char did not simplify')
            cs.append(chr(v.as_long()))
        return ''.join(cs)
    if isinstance(val, SymBool):
        v = _subst(val.e, binds)
        assert z3.is_true(v) or z3.is_false(v), v
        return z3.is_true(v)
    if isinstance(val, SymInt):
        v = _subst(val.e, binds)
        assert z3.is_int_value(v), v
        return v.as_long()
    if isinstance(val, SymList):
        n = _subst(val.nz(), binds).as_long()
        return [concretize(e, binds) for e in val.elems[:n]]
    if isinstance(val, SegList):
        out = []
        for k in range(len(val.guard)):
            g = _subst(val.guard[k], binds)
            if z3.is_true(g):
                out.append(concretize(val.seg(k), binds))
        return out
    if isinstance(val, (list, tuple)):
        return type(val)(concretize(v, binds) for v in val)
    return val


def strings(alphabet, maxlen, limit=None, seed=0, extra=()):
    out = list(extra)
    for L in range(maxlen + 1):
        for tup in itertools.product(alphabet, repeat=L):
            out.append(''.join(tup))
    if limit and len(out) > limit:
        rnd = random.Random(seed)
        keep = out[:min(len(out), limit // 4)]
        keep += rnd.sample(out, limit - len(keep))
        out = keep
    return out


def validate(sym_fn, real_fn, caps, samples, alphabet=None, norm=None):
    """sym_fn(*SymStr) evaluated once on fresh variables (inside an Explorer so
    that feasibility side-queries work); compared with real_fn(*str) on every
    tuple in `samples`.  -> (n, mismatches)"""
    E = Explorer()
    vs = []
    base = []
    for i, cap in enumerate(caps):
        v, c = SymStr.fresh('val%d' % i, cap, alphabet)
        vs.append(v)
        base += c
    holder = {}

    def run(ex):
        holder['out'] = sym_fn(*vs)
        return None
    prev = core.CUR
    core.CUR = E
    try:
        E.base = base
        E.start_path()
        # a validation run must not fork: forks would make the term path-specific
        E.max_decisions = 0
        try:
            out = sym_fn(*vs)
        except core.Budget:
            out = None
    finally:
        core.CUR = prev
    bad = []
    n = 0
    for tup in samples:
        if isinstance(tup, str):
            tup = (tup,)
        if any(len(s) > cap for s, cap in zip(tup, caps)):
            continue
        want = real_fn(*tup)
        if norm:
            want = norm(want)
        if out is None:
            got = _forking_eval(sym_fn, vs, base, tup)
        else:
            binds = []
            for v, s in zip(vs, tup):
                binds += _bind(v, s)
            got = concretize(out, binds)
        if norm:
            got = norm(got)
        n += 1
        if got != want:
            bad.append({'input': list(tup), 'model': repr(got), 'cpython': repr(want)})
            if len(bad) >= 5:
                break
    return n, bad


def _forking_eval(sym_fn, vs, base, tup):
    """fallback for models that fork: pin the inputs and run one path."""
    E = Explorer()
    pins = list(base)
    for v, s in zip(vs, tup):
        pins.append((v == s).e if not isinstance(v == s, bool) else z3.BoolVal(v == s))
    res = {}

    def run(ex):
        r = sym_fn(*vs)
        ex.check()
        m = ex.model()
        res['v'] = _model_value(r, m)
        return None
    E.explore(run, base=pins)
    return res.get('v')


def _model_value(r, m):
    if isinstance(r, SymStr):
        return r.concrete(m)
    if isinstance(r, SymBool):
        return z3.is_true(m.eval(r.e, model_completion=True))
    if isinstance(r, SymInt):
        return m.eval(r.e, model_completion=True).as_long()
    if isinstance(r, SymList):
        n = m.eval(r.nz(), model_completion=True).as_long()
        return [e.concrete(m) for e in r.elems[:n]]
    if isinstance(r, SegList):
        return [r.seg(k).concrete(m) for k in range(len(r.guard))
                if z3.is_true(m.eval(r.guard[k], model_completion=True))]
    if isinstance(r, (list, tuple)):
        return type(r)(_model_value(x, m) for x in r)
    if r is None or isinstance(r, (bool, int, str)):
        return r
    if hasattr(r, 'span'):
        a, b = r.span()
        return (_model_value(a, m), _model_value(b, m))
    return r
