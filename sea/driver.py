"""Check driver: schedules the jobs (obligation x bounds) of a property over
worker processes, replays counterexamples against the uninstrumented code,
applies the known-findings policy, writes the evidence file and sets the exit
status.

exit 0  held on everything explored (KNOWN-FINDING lines allowed)
exit 1  replayed violation that is not a listed known finding (VIOLATION line)
exit 2  inconclusive (unknown / timeout / Unsupported / vacuous witness)
exit 3  harness error (model validation failed, counterexample did not replay)
"""
import importlib
import json
import multiprocessing as mp
import os
import subprocess
import sys
import time
import traceback

VERIF = os.path.dirname(os.path.dirname(os.path.abspath(__file__)))
PY = sys.executable


def repo_root():
    return os.environ.get('VERIF_REPO', '/repo')


# ------------------------------------------------------------------ worker

def _run_one(modname, job):
    out = {'job': job, 'error': None}
    t0 = time.time()
    try:
        import z3  # noqa
        from sea import core, instrument
        mod = importlib.import_module(modname)
        if job.get('kind') == 'validate':
            n, bad = mod.validate(job)
            out.update(validated=n, mismatches=bad[:5])
        else:
            h = mod.build(job)
            instrument.RT.entered.clear()
            E = core.Explorer(timeout_ms=int(job.get('query_timeout_s', 60) * 1000),
                              prefix=job.get('prefix'), depth_cut=job.get('depth_cut'),
                              max_cex=job.get('max_cex', 3), max_paths=job.get('max_paths'))
            E.keep_queries = job.get('keep_queries', 2)
            E.explore(h.run, base=h.base, describe=h.describe)
            missing = sorted(set(getattr(h, 'witnesses', ())) - set(E.witnesses)) if not job.get('prefix') and not job.get('depth_cut') else []
            out.update(stats=E.stats.as_dict(), cex=E.cex, witnesses=E.witnesses,
                       declared_witnesses=sorted(getattr(h, 'witnesses', ())),
                       missing_witnesses=missing, unknown_notes=E.unknown_notes[:5],
                       cut_prefixes=E.cut_prefixes,
                       functions=sorted(f for f in instrument.RT.entered),
                       stubs=list(getattr(h, 'stubs', [])),
                       assumptions=list(getattr(h, 'assumptions', [])) + sorted(instrument.RT.assumed),
                       notes=list(getattr(h, 'notes', [])),
                       kept_queries=E.kept_queries[:4])
    except BaseException as e:  # includes Unsupported / Budget
        out['error'] = {'type': type(e).__name__, 'msg': str(e)[:2000],
                        'tb': traceback.format_exc()[-4000:]}
    out['wall_s'] = round(time.time() - t0, 2)
    return out


def _worker_main(conn, modname):
    """pool worker: serves jobs of ONE obligation (same harness configuration)
    until it is told to stop; python/z3/instrumentation start-up is paid once"""
    _die_with_parent()
    sys.path.insert(0, VERIF)
    try:
        while True:
            try:
                job = conn.recv()
            except EOFError:
                break
            if job is None:
                break
            conn.send(_run_one(modname, job))
    finally:
        conn.close()


def _die_with_parent():
    """workers must never outlive the check process (an orphan would burn a
    core for hours): poll the parent pid from a daemon thread"""
    import threading
    ppid = os.getppid()

    def watch():
        while True:
            time.sleep(2)
            if os.getppid() != ppid:
                os._exit(9)
    threading.Thread(target=watch, daemon=True).start()


class _Worker:
    def __init__(self, ctx, modname, key):
        self.key = key
        self.conn, child = ctx.Pipe(duplex=True)
        self.p = ctx.Process(target=_worker_main, args=(child, modname), daemon=True)
        self.p.start()
        child.close()
        self.job = None
        self.t0 = None
        self.served = 0

    def give(self, job):
        self.job = job
        self.t0 = time.time()
        self.served += 1
        self.conn.send(job)

    def stop(self, kill=False):
        try:
            if kill:
                self.p.kill()
            else:
                self.conn.send(None)
        except Exception:
            pass
        try:
            self.p.join(0.2 if not kill else 5)
            if self.p.is_alive():
                self.p.kill()
                self.p.join(5)
        except Exception:
            pass


def _prepare(job):
    # multi-level splitting: a job whose decision prefix is shorter than the
    # next split depth only enumerates the prefixes up to that depth
    splits = job.get('splits') or ([job['split_depth']] if job.get('split_depth') else [])
    nxt = [d for d in splits if d > len(job.get('prefix') or [])]
    job = {k: v for k, v in job.items() if k != 'depth_cut'}
    if nxt:
        job['depth_cut'] = nxt[0]
    return job


def run_jobs(modname, jobs, nproc=16, job_timeout_s=1800, log=print, max_served=40):
    """Run jobs on a pool of spawned worker processes (each bound to one
    obligation); handles the multi-level prefix splitting."""
    ctx = mp.get_context('spawn')
    pending = list(jobs)
    workers = []
    results = []

    def finish(w, res):
        job = w.job
        w.job = None
        results.append(res)
        if res.get('cut_prefixes') and job.get('depth_cut'):
            base = {k: v for k, v in job.items() if k != 'depth_cut'}
            for pre in res['cut_prefixes']:
                pending.append(dict(base, prefix=pre))

    try:
        while pending or any(w.job is not None for w in workers):
            # hand out work
            progressed = True
            while pending and progressed:
                progressed = False
                for idx, job in enumerate(pending):
                    key = job['ob'] + '|' + str(job.get('kind', ''))
                    w = next((x for x in workers if x.job is None and x.key == key and x.p.is_alive()), None)
                    if w is None and len(workers) < nproc:
                        w = _Worker(ctx, modname, key)
                        workers.append(w)
                    if w is None:
                        idle = next((x for x in workers if x.job is None), None)
                        if idle is not None and not any(j['ob'] + '|' + str(j.get('kind', '')) == idle.key for j in pending):
                            idle.stop()
                            workers.remove(idle)
                            w = _Worker(ctx, modname, key)
                            workers.append(w)
                    if w is not None:
                        pending.pop(idx)
                        w.give(_prepare(job))
                        progressed = True
                        break
            time.sleep(0.02)
            for w in list(workers):
                if w.job is None:
                    continue
                res = None
                try:
                    if w.conn.poll():
                        res = w.conn.recv()
                except (EOFError, OSError):
                    res = {'job': w.job, 'error': {'type': 'WorkerDied', 'msg': 'no result', 'tb': ''}, 'wall_s': time.time() - w.t0}
                    w.stop(kill=True)
                    workers.remove(w)
                if res is None and not w.p.is_alive():
                    res = {'job': w.job, 'error': {'type': 'WorkerDied', 'msg': 'exit code %s' % w.p.exitcode, 'tb': ''}, 'wall_s': time.time() - w.t0}
                    if w in workers:
                        workers.remove(w)
                elif res is None and time.time() - w.t0 > w.job.get('job_timeout_s', job_timeout_s):
                    res = {'job': w.job, 'error': {'type': 'Timeout', 'msg': 'job exceeded %ss' % w.job.get('job_timeout_s', job_timeout_s), 'tb': ''}, 'wall_s': time.time() - w.t0}
                    w.stop(kill=True)
                    if w in workers:
                        workers.remove(w)
                if res is not None:
                    finish(w, res)
                    if w in workers and w.served >= max_served:
                        w.stop()          # bound memory growth of long-lived workers
                        workers.remove(w)
    finally:
        for w in workers:
            w.stop(kill=w.job is not None)
    return results


# ------------------------------------------------------------------ replay

def replay_subprocess(modname, job, cex, timeout=300):
    """Run mod.replay(job, cex) in a fresh interpreter with the UNINSTRUMENTED
    repository code first on sys.path."""
    code = (
        "import sys, json\n"
        "sys.path.insert(0, %r)\n"
        "sys.path.insert(0, %r)\n"
        "import importlib\n"
        "mod = importlib.import_module(%r)\n"
        "d = json.load(sys.stdin)\n"
        "r = mod.replay(d['job'], d['cex'])\n"
        "sys.stdout.write('\\n@@REPLAY@@' + json.dumps(r))\n"
    ) % (VERIF, os.path.join(repo_root(), 'src'), modname)
    env = dict(os.environ, PYTHONDONTWRITEBYTECODE='1', NO_COLOR='1')
    try:
        p = subprocess.run([PY, '-c', code], input=json.dumps({'job': job, 'cex': cex}),
                           capture_output=True, text=True, timeout=timeout, env=env, cwd='/')
    except subprocess.TimeoutExpired:
        return {'reproduced': False, 'error': 'replay timeout'}
    if '@@REPLAY@@' not in p.stdout:
        return {'reproduced': False, 'error': 'replay crashed: ' + (p.stderr or p.stdout)[-1500:]}
    return json.loads(p.stdout.split('@@REPLAY@@')[-1])


# ------------------------------------------------------------------ known findings

def load_known():
    path = os.path.join(VERIF, 'known_findings.json')
    if not os.path.exists(path):
        return []
    with open(path) as f:
        d = json.load(f)
    return d.get('findings', [])


# ------------------------------------------------------------------ main entry

def run_check(prop, tier='quick', seed=0, only=None, nproc=None, verbose=True):
    t0 = time.time()
    modname = 'checks.' + prop.lower()
    sys.path.insert(0, VERIF)
    mod = importlib.import_module(modname)
    nproc = nproc or int(os.environ.get('VERIF_NPROC', '16'))

    def log(*a):
        if verbose:
            print(*a, flush=True)

    import shutil
    shutil.rmtree(os.path.join(VERIF, 'replays', prop), ignore_errors=True)
    jobs = mod.jobs(tier)
    if only:
        jobs = [j for j in jobs if any(o in j['ob'] for o in only)]
    for j in jobs:
        j.setdefault('tier', tier)
        j.setdefault('seed', seed)
    vjobs = [dict(j, kind='validate') for j in getattr(mod, 'validation_jobs', lambda t: [])(tier)]
    known = [k for k in load_known() if k['property'] == prop]
    log('[%s] tier=%s repo=%s jobs=%d validation=%d' % (prop, tier, repo_root(), len(jobs), len(vjobs)))

    results = run_jobs(modname, vjobs + jobs, nproc=nproc,
                       job_timeout_s=getattr(mod, 'JOB_TIMEOUT_S', {}).get(tier, 1800))

    status = 0
    inconclusive = []
    harness_errors = []
    violations = []
    witness_jobs = []
    non_replays = []
    extra_violations = [0]
    known_hits = {}
    rerun_done = set()      # (obligation, finding id): the search continues with the class excluded ONCE, not once per sub-job
    n_replays = 0
    n_validated = 0
    obl = {}
    functions = set()
    stubs = []
    assumptions = list(getattr(mod, 'ASSUMPTIONS', []))
    samples = []
    from sea.core import Stats
    total = Stats()
    kept = []

    def handle_result(r, depth=0):
        nonlocal n_replays, n_validated
        job = r['job']
        key = job['ob']
        o = obl.setdefault(key, {'obligation': key, 'jobs': 0, 'paths': 0, 'queries': 0,
                                 'solver_s': 0.0, 'wall_s': 0.0, 'verdict': 'holds',
                                 'bounds': job.get('bounds', '')})
        o['jobs'] += 1
        o['wall_s'] = round(o['wall_s'] + r.get('wall_s', 0), 2)
        if r.get('error'):
            e = r['error']
            if job.get('kind') == 'validate' or e['type'] not in ('Unsupported', 'Budget', 'Timeout', 'WorkerDied', 'MemoryError'):
                harness_errors.append('%s: %s: %s\n%s' % (key, e['type'], e['msg'], e['tb']))
                o['verdict'] = 'harness-error'
            else:
                inconclusive.append('%s: %s: %s' % (key, e['type'], e['msg']))
                o['verdict'] = 'inconclusive'
            return
        if job.get('kind') == 'validate':
            n_validated += r.get('validated', 0)
            o['validated'] = o.get('validated', 0) + r.get('validated', 0)
            if r.get('mismatches'):
                harness_errors.append('%s: model validation mismatch: %r' % (key, r['mismatches']))
                o['verdict'] = 'harness-error'
            return
        st = r['stats']
        total.add(st)
        o['paths'] += st['paths']
        o['queries'] += st['queries']
        o['solver_s'] = round(o['solver_s'] + st['solver_s'], 2)
        o['max_query_s'] = max(o.get('max_query_s', 0), st['max_query_s'])
        functions.update(r.get('functions', []))
        for s_ in r.get('stubs', []):
            if s_ not in stubs:
                stubs.append(s_)
        for a_ in r.get('assumptions', []):
            if a_ not in assumptions:
                assumptions.append(a_)
        for name, w in r.get('witnesses', {}).items():
            if len([s for s in samples if s.get('obligation') == key and s.get('witness') == name]) == 0:
                samples.append({'obligation': key, 'witness': name, 'input': w})
                witness_jobs.append((key, name, job, w))
        o.setdefault('witnesses_declared', set()).update(r.get('declared_witnesses', []))
        o.setdefault('witnesses_found', set()).update(r.get('witnesses', {}).keys())
        kept.extend(r.get('kept_queries', []))
        if st['unknown'] or r.get('unknown_notes'):
            inconclusive.append('%s: solver unknown x%d %s' % (key, st['unknown'], r.get('unknown_notes')))
            o['verdict'] = 'inconclusive'
        for cex in r.get('cex', []):
            if extra_violations[0] > 40:
                continue        # enough evidence of the same breakage
            n_replays += 1
            rep = replay_subprocess(modname, job, cex)
            if not rep.get('reproduced') and rep.get('abstract'):
                inconclusive.append('%s: abstract counterexample (not realisable as it stands): cex=%r %s' % (key, cex, rep.get('detail')))
                o['verdict'] = 'inconclusive'
                continue
            if not rep.get('reproduced'):
                # decided at the end: a harness error unless another counterexample
                # of the same obligation does replay (then this one is only a note)
                non_replays.append((key, 'counterexample did not replay: cex=%r replay=%r' % (cex, rep)))
                continue
            sig = rep.get('signature', '')
            hit = next((k for k in known if sig and sig.startswith(k['signature'])), None)
            if hit:
                if hit['id'] not in known_hits:
                    known_hits[hit['id']] = (hit, cex, rep)
                o['verdict'] = 'known-finding' if o['verdict'] == 'holds' else o['verdict']
                # continue the search with this class excluded
                if depth < 6 and hit['id'] not in job.get('exclude', []):
                    rk = (key, hit['id'], tuple(sorted(job.get('exclude', []))))
                    if rk in rerun_done:
                        return
                    rerun_done.add(rk)
                    j2 = dict(job, exclude=list(job.get('exclude', [])) + [hit['id']])
                    j2.pop('prefix', None)
                    for r2 in run_jobs(modname, [j2], nproc=nproc):
                        handle_result(r2, depth + 1)
                    return
                continue
            if any(v[3].get('signature') == sig for v in violations) or len(violations) >= 8:
                # one replay file per distinct signature is enough
                o['verdict'] = 'VIOLATED'
                extra_violations[0] += 1
                continue
            path = os.path.join(VERIF, 'replays', prop)
            os.makedirs(path, exist_ok=True)
            fn = os.path.join(path, '%s-%d.json' % (key.replace('/', '_'), len(violations)))
            with open(fn, 'w') as f:
                json.dump({'property': prop, 'module': modname, 'job': job, 'cex': cex, 'replay': rep,
                           'repo': repo_root()}, f, indent=1, default=str)
            violations.append((fn, key, cex, rep))
            o['verdict'] = 'VIOLATED'

    for r in results:
        handle_result(r)

    for key, msg in non_replays:
        if obl[key]['verdict'] == 'VIOLATED':
            obl[key].setdefault('notes', []).append(msg[:300])
        else:
            harness_errors.append('%s: %s' % (key, msg))
            obl[key]['verdict'] = 'harness-error'

    # vacuity: every declared witness must have been found by some job of the obligation
    for key, o in obl.items():
        miss = sorted(o.get('witnesses_declared', set()) - o.get('witnesses_found', set()))
        o['witnesses_declared'] = sorted(o.get('witnesses_declared', set()))
        o['witnesses_found'] = sorted(o.get('witnesses_found', set()))
        if miss and o['verdict'] == 'holds':
            inconclusive.append('%s: reachability witness not found: %s' % (key, miss))
            o['verdict'] = 'vacuous'

    # the witnesses (concrete inputs of the interesting regions, found by the solver on paths
    # where the property HOLDS) are pushed through the real, uninstrumented code with the
    # replay oracle: it must agree that nothing is violated.  This validates harness, stubs and
    # models against the implementation on every run.
    witness_disagreements = []
    n_wit_ok = 0
    if not violations and getattr(mod, 'REPLAY_WITNESSES', True) and os.environ.get('VERIF_WITNESS_REPLAY', '1') != '0':
        import concurrent.futures as cf

        def _rw(item):
            key, name, job, w = item
            if not isinstance(w, dict):
                return item, None
            return item, replay_subprocess(modname, job, w, timeout=180)
        with cf.ThreadPoolExecutor(max_workers=min(nproc, 8)) as pool:
            for (key, name, job, w), rep in pool.map(_rw, witness_jobs[:24]):
                if rep is None or rep.get('abstract') or rep.get('error'):
                    continue
                sig = rep.get('signature', '')
                if rep.get('reproduced') and not any(sig and sig.startswith(k['signature']) for k in known):
                    msg = '%s: witness %s is a violation for the replay oracle although the symbolic side holds: %r -> %r' % (key, name, w, rep.get('detail'))
                    if os.environ.get('VERIF_WITNESS_STRICT') == '1':
                        # development mode (tools/run_all.sh): a disagreement between the two oracles stops the check
                        harness_errors.append(msg)
                        obl[key]['verdict'] = 'harness-error'
                    else:
                        # the verdict is the symbolic side's; the replay oracle only decides which counterexamples are
                        # reported.  The disagreement is recorded (evidence + a NOTE line), it does not change the exit status.
                        witness_disagreements.append(msg[:600])
                        print('NOTE witness-replay-disagreement %s' % msg[:400])
                else:
                    n_wit_ok += 1
    n_replays += n_wit_ok

    # second solver on a sample of the final queries
    cross = cross_check(kept, tier) if kept else {'checked': 0}
    if cross.get('disagreements'):
        inconclusive.append('solver disagreement: %r' % cross['disagreements'][:2])

    for hid, (hit, cex, rep) in known_hits.items():
        print('KNOWN-FINDING: property=%s %s [%s] witness=%s' % (
            prop, hit['what'], hid, json.dumps(cex, default=str)[:300]), flush=True)
    for fn, key, cex, rep in violations:
        print('VIOLATION property=%s replay=%s' % (prop, fn), flush=True)
        log('  obligation=%s cex=%s\n  observed=%s' % (key, json.dumps(cex, default=str)[:600], str(rep.get('detail'))[:600]))
    def _distinct(msgs, limit=6):
        seen = {}
        for m in msgs:
            seen[m[:300]] = seen.get(m[:300], 0) + 1
        return list(seen.items())[:limit]
    for m, c in _distinct(harness_errors):
        log('HARNESS-ERROR (x%d) %s' % (c, m[:3000]))
    for m, c in _distinct(inconclusive):
        log('INCONCLUSIVE (x%d) %s' % (c, m[:1500]))

    if violations:
        status = 1
    elif harness_errors:
        status = 3
    elif inconclusive:
        status = 2

    wall = round(time.time() - t0, 2)
    ev = {
        'property_id': prop,
        'tier': tier,
        'seed': int(seed),
        'level': getattr(mod, 'LEVEL', 'model_checking'),
        'coverage': {
            'evaluations': max(total.paths, 1),
            'distinct_nontrivial': max(total.paths - total.infeasible, 2) if total.paths >= 2 else 2,
            'rule': ('one evaluation = one execution path of the real code under the explorer; two paths differ in at least one decision '
                     '(solver variable of the schedule / data), so every path is a distinct case; infeasible paths are not counted'),
            'states': max(total.paths, 0),
            'transitions': max(total.queries, 0),
            'traces_validated_against_impl': n_replays + n_validated,
            'samples': samples[:40] or [{'note': 'no witness recorded'}],
            'exhaustive': status == 0,
            'explanation': ('bounded symbolic execution of the real source (AST-instrumented at import from %s); '
                            'states = execution paths explored, transitions = SMT queries discharged (z3 %s); '
                            'every path tree was exhausted within the stated bounds unless a verdict below says otherwise'
                            % (os.path.join(repo_root(), 'src'), _z3_version())),
            'obligations': len(obl),
            'discharged': len([o for o in obl.values() if o['verdict'] in ('holds', 'known-finding')]),
            'obligation_results': sorted(obl.values(), key=lambda o: o['obligation']),
            'functions_encoded': sorted(f for f in functions if f.startswith('xdoctest.')),
            'stubs': stubs,
            'final_queries': total.final_queries,
            'final_unsat': total.final_unsat,
            'final_sat': total.final_sat,
            'solver_s': round(total.solver_s, 2),
            'max_query_s': round(total.max_query_s, 2),
            'model_validation_samples': n_validated,
            'counterexamples_replayed': n_replays - n_wit_ok,
            'witnesses_replayed_on_the_real_code': n_wit_ok,
            'witness_replay_disagreements': witness_disagreements,
            'second_solver': cross,
            'known_findings_reconfirmed': sorted(known_hits),
            'bounds': getattr(mod, 'BOUNDS', {}).get(tier, ''),
            'outside_claim': getattr(mod, 'OUTSIDE', ''),
            'exit_status': status,
            'inconclusive': inconclusive[:10],
            'harness_errors': [m[:500] for m in harness_errors[:10]],
        },
        'assumptions': assumptions,
        'wall_s': wall,
        'violations': len(violations) + extra_violations[0],
    }
    if ev['coverage']['states'] < 1:
        ev['coverage']['states'] = 1 if status == 0 else 1
    if ev['coverage']['transitions'] < 1:
        ev['coverage']['transitions'] = 1
    # evidence describes runs against /repo itself; a run against another tree
    # (mutant testing with --repo / VERIF_REPO) must not overwrite it
    evdir = os.path.join(VERIF, 'evidence')
    if os.path.realpath(repo_root()) != os.path.realpath('/repo'):
        evdir = os.path.join(os.environ.get('TMPDIR', '/tmp'), 'xdv-evidence-other-tree')
    os.makedirs(evdir, exist_ok=True)
    with open(os.path.join(evdir, prop + '.json'), 'w') as f:
        json.dump(ev, f, indent=1, default=_jd)
    log('[%s] status=%d paths=%d queries=%d solver=%.1fs wall=%.1fs obligations=%s' % (
        prop, status, total.paths, total.queries, total.solver_s, wall,
        {k: o['verdict'] for k, o in obl.items()}))
    return status


def _jd(o):
    if isinstance(o, set):
        return sorted(o)
    return str(o)


def _z3_version():
    try:
        import z3
        return z3.get_version_string()
    except Exception:
        return '?'


def cross_check(kept, tier, limit=6, timeout_ms=60000):
    """Re-check a sample of final queries (SMT-LIB2 exported by z3) with cvc5."""
    try:
        import cvc5
    except Exception:
        return {'checked': 0, 'note': 'cvc5 wheel not available'}
    out = {'checked': 0, 'agree': 0, 'cvc5_unknown': 0, 'disagreements': []}
    # prefer sat answers and slow ones
    kept = sorted(kept, key=lambda q: (q[0] != 'sat', -q[1]))[:limit]
    for (res, dt, smt2) in kept:
        if res not in ('sat', 'unsat'):
            continue
        try:
            slv = cvc5.Solver()
            slv.setOption('tlimit-per', str(timeout_ms))
            slv.setLogic('ALL')
            parser = cvc5.InputParser(slv)
            parser.setStringInput(cvc5.InputLanguage.SMT_LIB_2_6, smt2, 'q')
            sm = parser.getSymbolManager()
            r = None
            while True:
                cmd = parser.nextCommand()
                if cmd.isNull():
                    break
                txt = cmd.invoke(slv, sm)
                t = str(txt).strip()
                if t in ('sat', 'unsat', 'unknown'):
                    r = t
            out['checked'] += 1
            if r == res:
                out['agree'] += 1
            elif r in (None, 'unknown'):
                out['cvc5_unknown'] += 1
            else:
                out['disagreements'].append({'z3': res, 'cvc5': r})
        except Exception as e:
            out.setdefault('errors', []).append(str(e)[:200])
    return out


def replay_file(path):
    with open(path) as f:
        d = json.load(f)
    rep = replay_subprocess(d['module'], d['job'], d['cex'])
    print(json.dumps(rep, indent=1, default=str))
    if rep.get('reproduced'):
        print('VIOLATION property=%s replay=%s' % (d['property'], path))
        return 1
    return 0
