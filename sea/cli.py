import argparse
import os
import sys


def main():
    ap = argparse.ArgumentParser()
    ap.add_argument('property')
    ap.add_argument('--tier', default=os.environ.get('VERIF_TIER', 'quick'), choices=['quick', 'thorough'])
    ap.add_argument('--only', default=None)
    ap.add_argument('--repo', default=None)
    ap.add_argument('--replay', default=None)
    ap.add_argument('--nproc', type=int, default=None)
    a = ap.parse_args()
    if a.repo:
        os.environ['VERIF_REPO'] = os.path.abspath(a.repo)
    from sea import driver
    if a.replay:
        sys.exit(driver.replay_file(a.replay))
    seed = int(os.environ.get('VERIF_SEED', '0') or 0)
    st = driver.run_check(a.property.upper(), tier=a.tier, seed=seed,
                          only=a.only.split(',') if a.only else None, nproc=a.nproc)
    sys.exit(st)


if __name__ == '__main__':
    main()
