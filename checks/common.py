"""Shared helpers for the check modules.  Nothing here imports xdoctest at
module import time: build() runs in an instrumented worker, replay() in a
plain interpreter with the uninstrumented repository first on sys.path."""
import os
import sys

VERIF = os.path.dirname(os.path.dirname(os.path.abspath(__file__)))
if VERIF not in sys.path:
    sys.path.insert(0, VERIF)


class Harness:
    base = ()
    witnesses = ()
    stubs = ()
    assumptions = ()
    notes = ()

    def run(self, ex):
        raise NotImplementedError

    def describe(self, model):
        return {}


def instrumented():
    """install the instrumenting import hook (idempotent) and return the package"""
    from sea import instrument
    instrument.install()
    import xdoctest  # noqa
    return instrument


def zbool(x):
    """python bool / SymBool / z3 Bool -> z3 Bool"""
    import z3
    from sea.core import SymBool
    if isinstance(x, SymBool):
        return x.e
    if isinstance(x, bool):
        return z3.BoolVal(x)
    if x is None:
        return z3.BoolVal(False)
    if isinstance(x, z3.ExprRef):
        return x
    return z3.BoolVal(bool(x))


def mkstate(directive, **flags):
    """a real RuntimeState whose persistent flags are the given (possibly
    symbolic) values"""
    rs = directive.RuntimeState()
    for k, v in flags.items():
        assert k in rs._global_state, k
        rs._global_state[k] = v
    return rs


def plain_state(directive, **flags):
    rs = directive.RuntimeState()
    for k, v in flags.items():
        rs._global_state[k] = v
    return rs
