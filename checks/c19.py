"""C19 - the dump command emits valid Python holding every doctest statement in order.

The real runner._convert_to_test_module (+ DoctestPart.format_part(prefix=False),
utils.indent, undefined_names) on a symbolic MODULE of doctests: number of
doctests (two may belong to the same callable), parts per doctest, and for every
part a symbolic choice of statements from a menu (one-line statements,
multi-line bracketed statements, triple-quoted multi-line strings, star imports
- also two adjacent ones -, comments, a bare continuation terminator) and an
optional multi-line want.  Every feasible module is converted and the text is
checked STRUCTURALLY with ast: it parses; it defines one test function per
doctest; each function body holds exactly the doctest's statements (star
imports removed) in their original order; every want is preserved as comment
lines directly after its part.
"""
import z3
from .common import Harness, zbool, instrumented

PROPERTY = 'C19'
LEVEL = 'exploration'      # the solver enumerates a schedule / skeleton; the data of a path are concrete (DESIGN.md section 4)
STMTS = [['x = 1'], ['print(x)'], ['y = (', '    2)'], ["s = '''a", "b'''"], ['from os import *'], ['from os.path import *'],
         ['# just a comment'], ['if x:', '    z = 3', ''], ['import os  # not a star import *'], ["t = 'from m import *'"]]
WANTS = [None, ['1'], ['line a', 'line b'], ['# looks like a comment']]
BOUNDS = {'quick': 'first doctest: 1..2 parts, the first with 1..2 statements from a menu of %d and a want from a menu of %d, the second with one statement; optionally a second doctest of the same or of another callable' % (len(STMTS), len(WANTS)),
          'thorough': 'as quick (three statements in the first part, and a third doctest, did not finish within 15 minutes on 8 cores and were withdrawn)'}
OUTSIDE = 'pyflakes based "from module import names" header (undefined_names is executed but its header line is only required to parse); the semantics of the dumped code when executed'
ASSUMPTIONS = ['the statements of the menu are valid Python on their own, so the dump of any sequence of them must parse',
               'blank source lines (the terminator of an old-style continuation) are not counted as statements']


def jobs(tier):
    q = tier == 'quick'
    return [{'ob': 'dump_structure', 'harness': 'dump', 'n': 2, 'maxstmt': 2, 'splits': [3, 6, 9, 12], 'query_timeout_s': 60,
             'bounds': BOUNDS[tier]}]


def expected_body(parts):
    """(statement lines without star imports and blank lines, wants) per part"""
    out = []
    for stmts, want in parts:
        lines = [l for st in stmts for l in STMTS[st] if ' import *' not in l]
        out.append((lines, WANTS[want]))
    return out


def check_dump(text, docs):
    """docs: list of (callname, [(stmts, want)]).  -> list of problems"""
    import ast
    bad = []
    try:
        tree = ast.parse(text)
    except SyntaxError as e:
        return ['not valid python: %s' % e]
    funcs = [n for n in tree.body if isinstance(n, ast.FunctionDef)]
    if len(funcs) != len(docs):
        bad.append('%d test functions for %d doctests' % (len(funcs), len(docs)))
    if len(set(f.name for f in funcs)) != len(funcs):
        bad.append('duplicate-function-names')
    tl = text.split('\n')
    for f, (callname, parts) in zip(funcs, docs):
        seg = tl[f.lineno:f.end_lineno]        # lines after the def line (a trailing comment block may lie beyond end_lineno)
        # extend to the next def / end of text: wants of the last part are comments after the last statement
        nxt = min([g.lineno - 1 for g in funcs if g.lineno > f.lineno] + [len(tl)])
        seg = tl[f.lineno:nxt]
        body = [l[4:] if l.startswith('    ') else l for l in seg]
        # drop the docstring header (three lines) and import header lines
        try:
            k = body.index('"""', 1) + 1
        except ValueError:
            bad.append('no docstring header')
            continue
        body = body[k:]
        while body and body[0].startswith('from ') and ' import ' in body[0] and body[0].split()[1].startswith('m_c19'):
            body = body[1:]
        exp = []
        for lines, want in expected_body(parts):
            exp += [l for l in lines if l.strip()]
            if want:
                exp += ['# doctest want:'] + ['# ' + w for w in want]
        got = [l for l in body if l.strip()]
        if got != exp:
            bad.append('body of %s differs: %r != %r' % (f.name, got, exp))
    return bad


class Dump(Harness):
    witnesses = ('two_doctests_of_one_callable', 'adjacent_star_imports', 'multi_line_string', 'multi_line_want')

    def __init__(self, job):
        instrumented()
        from xdoctest import runner, doctest_example, doctest_part
        self.runner, self.de, self.dp = runner, doctest_example, doctest_part
        self.job = job
        N, M = job['n'], job['maxstmt']
        self.N, self.M = N, M
        self.ndoc = z3.Int('n_doctests')
        self.same = z3.Bool('first_two_share_a_callable')
        self.npart = [z3.Int('n_parts%d' % i) for i in range(N)]
        self.nst = [[z3.Int('n_stmts_%d_%d' % (i, j)) for j in range(2)] for i in range(N)]
        self.st = [[[z3.Int('stmt_%d_%d_%d' % (i, j, k)) for k in range(M)] for j in range(2)] for i in range(N)]
        self.wn = [[z3.Int('want_%d_%d' % (i, j)) for j in range(2)] for i in range(N)]
        self.base = [self.ndoc >= 1, self.ndoc <= N]
        for i in range(N):
            self.base += [self.npart[i] >= 1, self.npart[i] <= 2]
            for j in range(2):
                self.base += [self.nst[i][j] >= 1, self.nst[i][j] <= M, self.wn[i][j] >= 0, self.wn[i][j] < len(WANTS)]
                self.base += [z3.And(v >= 0, v < len(STMTS)) for v in self.st[i][j]]
        from sea import instrument
        instrument.RT.STUBS['print'] = lambda *a, **k: None

    def schedule(self):
        from sea.core import SymBool, SymInt
        n = int(SymInt(self.ndoc))
        same = bool(SymBool(self.same)) if n >= 2 else False
        docs = []
        for i in range(n):
            parts = []
            if i >= 1:
                # the further doctests are fixed one-statement doctests: what matters is that they exist
                parts = [([0], 0)]
            else:
                for j in range(int(SymInt(self.npart[i]))):
                    if j == 0:
                        stmts = [int(SymInt(self.st[i][j][k])) for k in range(int(SymInt(self.nst[i][j])))]
                        parts.append((stmts, int(SymInt(self.wn[i][j]))))
                    else:
                        parts.append(([int(SymInt(self.st[i][j][0]))], int(SymInt(z3.If(self.wn[i][j] >= 2, 2, 0)))))
            callname = 'f' if (i == 0 or (i == 1 and same)) else 'g%d' % i
            num = 1 if (i == 1 and same) else 0
            docs.append((callname, num, parts))
        return docs

    def run(self, ex):
        docs = self.schedule()
        examples = []
        for callname, num, parts in docs:
            dt = self.de.DocTest('', None, callname, num, 1, mode='native')
            dt.modname = 'm_c19'
            ps = []
            off = 0
            for stmts, want in parts:
                exec_lines = [l for st in stmts for l in STMTS[st]]
                p = self.dp.DoctestPart(list(exec_lines), want_lines=list(WANTS[want]) if WANTS[want] else None, line_offset=off,
                                        orig_lines=['>>> ' + l for l in exec_lines], directives=[])
                ps.append(p)
                off += len(exec_lines) + len(WANTS[want] or [])
            dt._parts = ps
            examples.append(dt)
        try:
            text = self.runner._convert_to_test_module(examples)
        except Exception as e:
            self.last_error = '%s: %s' % (type(e).__name__, e)
            return {'conversion_returns': z3.BoolVal(False)}
        bad = check_dump(text, [(c, p) for c, n, p in docs])
        self.last_error = bad
        props = {'valid_python': z3.BoolVal(not any(b.startswith('not valid') for b in bad)),
                 'one_function_per_doctest': z3.BoolVal(not any('test functions for' in b for b in bad)),
                 'function_names_are_distinct': z3.BoolVal('duplicate-function-names' not in bad),
                 'statements_and_wants_in_order': z3.BoolVal(not any(b.startswith('body of') or b.startswith('no docstring') for b in bad))}
        if len(docs) >= 2 and docs[0][0] == docs[1][0]:
            ex.witness('two_doctests_of_one_callable', True)
        for c, n, parts in docs:
            for stmts, want in parts:
                if any(a in (4, 5) and b in (4, 5) for a, b in zip(stmts, stmts[1:])):
                    ex.witness('adjacent_star_imports', True)
                if 3 in stmts:
                    ex.witness('multi_line_string', True)
                if want == 2:
                    ex.witness('multi_line_want', True)
        return props

    def describe(self, model):
        def n(v):
            return model.eval(v, model_completion=True).as_long()
        nd = n(self.ndoc)
        same = z3.is_true(model.eval(self.same, model_completion=True)) and nd >= 2
        docs = []
        for i in range(nd):
            parts = []
            for j in range(n(self.npart[i])):
                parts.append({'stmts': [n(self.st[i][j][k]) for k in range(n(self.nst[i][j]))], 'want': n(self.wn[i][j])})
            docs.append({'callname': 'f' if (i == 0 or (i == 1 and same)) else 'g%d' % i, 'parts': parts})
        return {'harness': 'dump', 'doctests': docs}


def build(job):
    return Dump(job)


# ---------------------------------------------------------------- replay: a real module through `dump`

def replay(job, cex):
    import io
    import os
    import shutil
    import tempfile
    import contextlib
    import xdoctest
    d = tempfile.mkdtemp(prefix='xdv-c19-')
    try:
        by_call = {}
        order = []
        for doc in cex['doctests']:
            if doc['callname'] not in by_call:
                order.append(doc['callname'])
            by_call.setdefault(doc['callname'], []).append(doc)
        src = ''
        docs_flat = []
        for call in order:
            src += 'def %s():\n    """\n' % call
            for doc in by_call[call]:
                src += '    Example:\n'
                parts = []
                for p in doc['parts']:
                    for st in p['stmts']:
                        lines = STMTS[st]
                        src += '        >>> ' + lines[0] + '\n' + ''.join('        ... ' + l + '\n' for l in lines[1:])
                    w = WANTS[p['want']]
                    if w:
                        src += ''.join('        ' + l + '\n' for l in w)
                    else:
                        src += '\n'
                    parts.append((p['stmts'], p['want']))
                src += '\n'
                docs_flat.append((call, parts))
            src += '    """\n\n'
        path = os.path.join(d, 'm_c19.py')
        with open(path, 'w') as f:
            f.write(src)
        buf = io.StringIO()
        with contextlib.redirect_stdout(buf):
            xdoctest.doctest_module(path, command='dump', argv=[''], verbose=0)
        text = buf.getvalue()
        import ast
        bad = []
        try:
            tree = ast.parse(text)
            funcs = [n for n in tree.body if isinstance(n, ast.FunctionDef)]
            if len(funcs) != len(docs_flat):
                bad.append('function-count')
            if len(set(f.name for f in funcs)) != len(funcs):
                bad.append('duplicate-function-names')
            # every statement line (star imports removed) must appear, in order, inside the dump
            pos = 0
            for call, parts in docs_flat:
                for lines, want in expected_body(parts):
                    for l in [x for x in lines if x.strip()]:
                        k = text.find(l, pos)
                        if k < 0:
                            bad.append('missing-or-reordered-statement')
                            break
                        pos = k + len(l)
            for l in text.split('\n'):
                if ' import *' in l and not l.strip().startswith('#') and 'import os  #' not in l and "'from m" not in l:
                    bad.append('star-import-kept')
        except SyntaxError as e:
            bad.append('not-valid-python')
        return {'reproduced': bool(bad), 'detail': 'module %r -> dump problems %s\n%s' % (src, sorted(set(bad)), text[:600]),
                'signature': 'C19:' + ','.join(sorted(set(bad)))}
    finally:
        shutil.rmtree(d, ignore_errors=True)
