"""C04 - directive scoping: block persists, inline is local, skipped code never runs.

A. state_machine_step (INDUCTIVE): from an arbitrary valid RuntimeState
   (every flag a solver variable, any pending requirement set, any left-over
   inline overlay) ONE real RuntimeState.update with up to two directives
   (name / sign / inline / argument symbolic), through the real
   Directive.effects and _is_requires_satisfied, is compared with a reference
   state machine written from the statement.  One step from an arbitrary valid
   state covers histories of any length.
B. run_skip_rule: the real DocTest.run loop on k events (plain statement /
   block directive / statement with inline directive; with or without want;
   output matching the want or not): a statement executes iff effective SKIP is
   off and no unmet requirement is pending; skipped statements are absent from
   the trace and their wants are never checked; inline IGNORE_WANT/SKIP/REQUIRES
   affect that statement only.
C. defaults_as_leading_block: DoctestConfig._populate_from_cli(options) +
   RuntimeState(default_state) against the same directives applied as a
   leading block directive (sign character symbolic, real option parser).
"""
import os
import z3
from .common import Harness, zbool
from . import hrun

PROPERTY = 'C04'
FLAGS = ['SKIP', 'ELLIPSIS', 'IGNORE_WANT', 'NORMALIZE_WHITESPACE']
REPORTS = ['REPORT_CDIFF', 'REPORT_NDIFF', 'REPORT_UDIFF']
ARGS = ['env:XDV_M==1', 'env:XDV_A==1', 'env:XDV_B==1']
UNMET = ARGS[1:]
NAMES = FLAGS + ['REQUIRES', 'REPORT_NDIFF', 'REPORT_CDIFF', None]

BOUNDS = {
    'quick': 'A: one step from an arbitrary state, 0..2 directives per part over %d names; B: k=2 events; C: 1..2 options' % (len(NAMES) - 1),
    'thorough': 'A: as quick plus 3 directives per part; B: k=3 events; C: 1..3 options',
}
OUTSIDE = ('recognising directive comments in source text (tokenizer: "not inside string literals"); the part breaks that isolate an inline '
           'directive (C01/C13); requirement kinds other than env: (module:, platform tags, command line flags) are fixed to one met and two unmet env conditions')
ASSUMPTIONS = ['all directives of one part share the inline flag (Directive.extract derives it from the part text)',
               'REQUIRES arguments: one satisfied and two unsatisfied env: conditions against a fixed environment',
               'valid pre-state = every key of DEFAULT_RUNTIME_STATE present, REQUIRES a set of unmet conditions, at most one REPORT_ flag on']


def jobs(tier):
    q = tier == 'quick'
    out = [{'ob': 'state_machine_step', 'harness': 'step', 'ndir': 2 if q else 3, 'splits': [3, 6, 9],
            'bounds': 'arbitrary pre-state (4 flags + 3 report flags symbolic, 4 requirement sets, 3 left-over overlays), one update with 0..%d directives' % (2 if q else 3)},
           {'ob': 'run_skip_rule', 'harness': 'run', 'k': 2 if q else 3, 'splits': [3, 6, 9, 12],
            'bounds': 'k=%d events (plain / block directive / inline directive), directive menu SKIP, IGNORE_WANT, REQUIRES(met|unmet a|unmet b), sign symbolic; want present or not, output matching or not' % (2 if q else 3)},
           {'ob': 'defaults_as_leading_block', 'harness': 'defaults', 'nopt': 2 if q else 3, 'splits': [3, 6],
            'bounds': '1..%d comma separated options from %r with a symbolic sign character' % (2 if q else 3, FLAGS + ['REQUIRES(unmet)', 'REQUIRES(met)'])}]
    out.append({'ob': 'directive_part_breaks', 'harness': 'chunk', 'k': 4 if q else 6, 'splits': [3, 6, 9, 12],
                'bounds': 'the chunk obligation of C01: k<=%d source lines, statement starts / directives (none, block, inline) / want / mode hint symbolic; a directive isolates its statement and a part reports only its own directives' % (4 if q else 6)})
    for j in out:
        j['query_timeout_s'] = 60 if q else 300
    return out


# ---------------------------------------------------------------- reference state machine

class Ref:
    """persistent flags (z3 Bools) + requirement set (python set of strings)"""

    def __init__(self, flags, req):
        self.flags = dict(flags)
        self.req = set(req)

    def copy(self):
        return Ref(self.flags, self.req)

    def apply(self, name, positive, arg):
        """positive: z3 Bool (flags) or python bool (REQUIRES / REPORT: forked)"""
        if name is None:
            return
        if name == 'REQUIRES':
            if arg in UNMET:
                if positive:
                    self.req.add(arg)
                else:
                    self.req.discard(arg)
        elif name.startswith('REPORT_'):
            if not positive:      # (sic) the code base enables a style with the negative form
                for k in REPORTS:
                    self.flags[k] = z3.BoolVal(k == name)
        else:
            self.flags[name] = positive


def step_ref(P, directives, inline):
    """-> (persistent after, effective for this part)"""
    if inline:
        E = P.copy()
        for (n, p, a) in directives:
            E.apply(n, p, a)
        return P, E
    P2 = P.copy()
    for (n, p, a) in directives:
        P2.apply(n, p, a)
    return P2, P2


class Step(Harness):
    witnesses = ('inline_unmet_requires', 'inline_flag_change', 'block_requires_removed', 'inline_report_style')

    def __init__(self, job):
        from .common import instrumented
        instrumented()
        from xdoctest import directive
        self.directive = directive
        os.environ['XDV_M'] = '1'
        os.environ.pop('XDV_A', None)
        os.environ.pop('XDV_B', None)
        self.job = job
        self.nd = job['ndir']
        self.pre = {k: z3.Bool('pre_' + k) for k in FLAGS + REPORTS}
        self.preq = z3.Int('pre_requires')           # bit set over UNMET
        self.left = z3.Int('leftover_overlay')
        self.inline = z3.Bool('inline')
        self.dname = [z3.Int('name%d' % i) for i in range(self.nd)]
        self.dpos = [z3.Bool('positive%d' % i) for i in range(self.nd)]
        self.darg = [z3.Int('arg%d' % i) for i in range(self.nd)]
        self.base = [self.preq >= 0, self.preq <= 3, self.left >= 0, self.left <= 2,
                     z3.AtMost(*[self.pre[k] for k in REPORTS], 1)]
        for i in range(self.nd):
            self.base += [self.dname[i] >= 0, self.dname[i] < len(NAMES), self.darg[i] >= 0, self.darg[i] <= 2]
        self.stubs = ['os.environ: XDV_M=1, XDV_A and XDV_B absent']

    def run(self, ex):
        from sea.core import SymBool, SymInt
        D = self.directive
        defaults_before = repr(sorted((k, sorted(v) if isinstance(v, set) else v) for k, v in D.DEFAULT_RUNTIME_STATE.items()))
        rs = D.RuntimeState()
        for k, v in self.pre.items():
            rs._global_state[k] = SymBool(v)
        rq = int(SymInt(self.preq))
        req0 = {UNMET[b] for b in range(2) if rq >> b & 1}
        rs._global_state['REQUIRES'] = set(req0)
        left = int(SymInt(self.left))
        if left == 1:
            rs._inline_state = {'SKIP': True, 'ELLIPSIS': False}
        elif left == 2:
            rs._inline_state = {'REQUIRES': {UNMET[0]}, 'REPORT_NDIFF': True}
        inline = bool(SymBool(self.inline))
        dirs, spec = [], []
        for i in range(self.nd):
            name = NAMES[int(SymInt(self.dname[i]))]
            if name is None:
                continue
            if name == 'REQUIRES':
                arg = ARGS[int(SymInt(self.darg[i]))]
                pos = bool(SymBool(self.dpos[i]))
                dirs.append(D.Directive(name, pos, [arg], inline))
                spec.append((name, pos, arg))
            elif name.startswith('REPORT_'):
                pos = bool(SymBool(self.dpos[i]))
                dirs.append(D.Directive(name, pos, [], inline))
                spec.append((name, pos, None))
            else:
                dirs.append(D.Directive(name, SymBool(self.dpos[i]), [], inline))
                spec.append((name, self.dpos[i], None))
        raised = None
        try:
            rs.update(dirs)
        except Exception as e:
            raised = e
        P0 = Ref(self.pre, req0)
        P1, E1 = step_ref(P0, spec, inline)
        props = {}
        props['update_raises_nothing'] = z3.BoolVal(raised is None)
        if raised is not None:
            return props
        pers, eff = [], []
        for k in FLAGS + REPORTS:
            pers.append(zbool(rs._global_state[k] == SymBool(P1.flags[k])) if not isinstance(rs._global_state[k], bool)
                        else (P1.flags[k] == z3.BoolVal(rs._global_state[k])))
            v = rs[k]
            eff.append(zbool(v == SymBool(E1.flags[k])) if not isinstance(v, bool) else (E1.flags[k] == z3.BoolVal(v)))
        props['persistent_flags'] = z3.And(pers)
        props['effective_flags'] = z3.And(eff)
        props['persistent_requirements'] = z3.BoolVal(rs._global_state['REQUIRES'] == P1.req)
        props['effective_requirements'] = z3.BoolVal(rs['REQUIRES'] == E1.req)
        after = repr(sorted((k, sorted(v) if isinstance(v, set) else v) for k, v in D.DEFAULT_RUNTIME_STATE.items()))
        props['module_defaults_untouched'] = z3.BoolVal(
            after == defaults_before and rs._global_state['REQUIRES'] is not D.DEFAULT_RUNTIME_STATE['REQUIRES'])
        if inline and any(n == 'REQUIRES' and p and a in UNMET for (n, p, a) in spec):
            ex.witness('inline_unmet_requires', True)
        if inline and any(n in FLAGS for (n, p, a) in spec):
            ex.witness('inline_flag_change', z3.Or([self.pre[n] != p for (n, p, a) in spec if n in FLAGS]))
        if not inline and any(n == 'REQUIRES' and not p and a in req0 for (n, p, a) in spec):
            ex.witness('block_requires_removed', True)
        if inline and any(n.startswith('REPORT_') and not p for (n, p, a) in spec):
            ex.witness('inline_report_style', True)
        return props

    def describe(self, model):
        def b(v):
            return z3.is_true(model.eval(v, model_completion=True))

        def n(v):
            return model.eval(v, model_completion=True).as_long()
        dirs = []
        for i in range(self.nd):
            name = NAMES[n(self.dname[i])]
            if name is not None:
                dirs.append({'name': name, 'positive': b(self.dpos[i]), 'arg': ARGS[n(self.darg[i])] if name == 'REQUIRES' else None})
        rq = n(self.preq)
        return {'harness': 'step', 'pre_flags': {k: b(v) for k, v in self.pre.items()},
                'pre_requires': sorted(UNMET[x] for x in range(2) if rq >> x & 1), 'leftover': n(self.left),
                'inline': b(self.inline), 'directives': dirs}


# ---------------------------------------------------------------- B. run loop

MENU_B = [None, 'SKIP', 'IGNORE_WANT', 'REQUIRES']


class RunRule(Harness):
    witnesses = ('inline_skip_then_next_runs', 'block_skip_then_unskip', 'skipped_wrong_want_not_checked',
                 'inline_ignore_want_local', 'all_skipped_is_skipped', 'inline_unmet_requires_skips_one')

    def __init__(self, job):
        self.m = hrun.install()
        os.environ['XDV_M'] = '1'
        os.environ.pop('XDV_A', None)
        os.environ.pop('XDV_B', None)
        self.job = job
        K = self.K = job['k']
        if K < 3:
            self.witnesses = tuple(w for w in self.witnesses if w != 'block_skip_then_unskip')
        self.kind = [z3.Int('kind%d' % i) for i in range(K)]       # 0 plain, 1 block directive, 2 inline directive
        self.dname = [z3.Int('name%d' % i) for i in range(K)]
        self.dpos = [z3.Bool('positive%d' % i) for i in range(K)]
        self.darg = [z3.Int('arg%d' % i) for i in range(K)]
        self.haswant = [z3.Bool('haswant%d' % i) for i in range(K)]
        self.match = [z3.Bool('output_matches%d' % i) for i in range(K)]
        self.base = []
        for i in range(K):
            self.base += [self.kind[i] >= 0, self.kind[i] <= 2, self.dname[i] >= 1, self.dname[i] < len(MENU_B),
                          self.darg[i] >= 0, self.darg[i] <= 2]
        ck = self.m['checker']
        ck.normalize = lambda g, w, rs=None: (g, w)
        ck._check_match = lambda g, w, rs: (g == w)
        self.stubs = hrun.STUB_NOTES + ['checker.normalize -> identity, _check_match -> equality (outputs are the one-character texts "w" / "x")']

    def run(self, ex):
        from sea.core import SymBool, SymInt
        from sea.symstr import sym_ite
        m = self.m
        D = m['directive']
        E = hrun.ENV
        E.reset()
        K = self.K
        parts, ev = [], []
        for i in range(K):
            kind = int(SymInt(self.kind[i]))
            info = {'kind': kind, 'dir': None}
            dirs = []
            if kind:
                name = MENU_B[int(SymInt(self.dname[i]))]
                if name == 'REQUIRES':
                    arg = ARGS[int(SymInt(self.darg[i]))]
                    pos = bool(SymBool(self.dpos[i]))
                    dirs = [D.Directive(name, pos, [arg], kind == 2)]
                    info['dir'] = (name, pos, arg)
                else:
                    dirs = [D.Directive(name, SymBool(self.dpos[i]), [], kind == 2)]
                    info['dir'] = (name, self.dpos[i], None)
            code = kind != 1
            hw = bool(SymBool(self.haswant[i])) if code else False
            info.update(code=code, hw=hw)
            src = ('x = 1 #%d#' if code else '# xdoctest: directive #%d#') % i
            p = m['doctest_part'].DoctestPart([src], want_lines=['w'] if hw else None, line_offset=i,
                                              orig_lines=['>>> ' + src], directives=dirs)
            parts.append(p)
            ev.append(info)

            def beh(code_, glb, i=i, hw=hw):
                if hw:
                    E.cap.write(sym_ite(self.match[i], 'w', 'x'))
                return None
            E.behaviour[i] = beh
        dt = m['doctest_example'].DocTest('', None, 'f', 0, 1, mode='native')
        dt._parts = parts
        raised = None
        summ = None
        try:
            summ = dt.run(verbose=0, on_error='return')
        except Exception as e:
            raised = e
        trace = list(E.trace)
        if raised is not None:
            return {'run_returns': z3.BoolVal(False)}

        # reference
        P = Ref({'SKIP': z3.BoolVal(False), 'IGNORE_WANT': z3.BoolVal(False)}, set())
        runs, okc = [], []
        for i, c in enumerate(ev):
            spec = [c['dir']] if c['dir'] else []
            P, Eff = step_ref(P, spec, c['kind'] == 2)
            ex_i = z3.And(z3.Not(Eff.flags['SKIP']), z3.BoolVal(len(Eff.req) == 0)) if c['code'] else z3.BoolVal(False)
            runs.append(ex_i)
            if c['code'] and c['hw']:
                okc.append(z3.Or(z3.Not(ex_i), Eff.flags['IGNORE_WANT'], self.match[i]))
            else:
                okc.append(z3.BoolVal(True))
        terms = []
        for f in range(K + 1):
            pre = z3.And([okc[j] for j in range(min(f, K))] + ([z3.Not(okc[f])] if f < K else []))
            upto = f if f < K else K - 1
            # the trace must be exactly the executing statements up to the failing one
            tr = z3.And([runs[j] == z3.BoolVal(j in trace) for j in range(upto + 1)] +
                        [z3.BoolVal(j not in trace) for j in range(upto + 1, K)])
            if f < K:
                ok = (summ['failed'] is True and dt.failed_part is parts[f] and
                      isinstance(summ['exc_info'][1], m['checker'].GotWantException))
                terms.append(z3.Implies(pre, z3.And(tr, z3.BoolVal(bool(ok)))))
            else:
                anyrun = z3.Or(runs)
                ok = summ['failed'] is False
                terms.append(z3.Implies(pre, z3.And(tr, z3.BoolVal(bool(ok)), anyrun == z3.BoolVal(summ['passed'] is True),
                                                    z3.Not(anyrun) == z3.BoolVal(summ['skipped'] is True))))
        props = {'skip_rule_trace_and_verdict': z3.And(terms),
                 'order': z3.BoolVal(trace == sorted(trace) and len(set(trace)) == len(trace))}

        kinds = [c['kind'] for c in ev]
        if K >= 2 and kinds[0] == 2 and ev[0]['dir'][0] == 'SKIP' and 0 not in trace and 1 in trace:
            ex.witness('inline_skip_then_next_runs', True)
        if K >= 2 and kinds[0] == 2 and ev[0]['dir'][0] == 'REQUIRES' and 0 not in trace and 1 in trace:
            ex.witness('inline_unmet_requires_skips_one', True)
        if K >= 3 and kinds[0] == 1 and kinds[1] == 1 and ev[0]['dir'][0] == 'SKIP' and ev[1]['dir'][0] == 'SKIP' and 2 in trace:
            ex.witness('block_skip_then_unskip', True)
        for i, c in enumerate(ev):
            if c['hw'] and i not in trace and not summ['failed']:
                ex.witness('skipped_wrong_want_not_checked', z3.Not(self.match[i]))
        if K >= 2 and kinds[0] == 2 and ev[0]['dir'][0] == 'IGNORE_WANT' and ev[0]['hw'] and ev[1]['hw'] and summ['failed'] and dt.failed_part is parts[1]:
            ex.witness('inline_ignore_want_local', z3.Not(self.match[0]))
        if not trace and summ['skipped']:
            ex.witness('all_skipped_is_skipped', True)
        return props

    def describe(self, model):
        def b(v):
            return z3.is_true(model.eval(v, model_completion=True))

        def n(v):
            return model.eval(v, model_completion=True).as_long()
        evs = []
        for i in range(self.K):
            kind = n(self.kind[i])
            d = {'kind': ['plain', 'block', 'inline'][kind]}
            if kind:
                name = MENU_B[n(self.dname[i])]
                d.update(name=name, positive=b(self.dpos[i]), arg=ARGS[n(self.darg[i])] if name == 'REQUIRES' else None)
            if kind != 1:
                d.update(has_want=b(self.haswant[i]), output_matches=b(self.match[i]))
            evs.append(d)
        return {'harness': 'run', 'events': evs}


# ---------------------------------------------------------------- C. defaults

OPTS = FLAGS + ['REQUIRES(%s)' % ARGS[1], 'REQUIRES(%s)' % ARGS[0]]


class Defaults(Harness):
    witnesses = ('negative_option', 'requires_option')

    def __init__(self, job):
        from .common import instrumented
        instrumented()
        from xdoctest import directive, doctest_example
        from sea.symstr import SymStr
        self.directive, self.de = directive, doctest_example
        os.environ['XDV_M'] = '1'
        os.environ.pop('XDV_A', None)
        self.job = job
        self.no = job['nopt']
        self.count = z3.Int('noptions')
        self.which = [z3.Int('option%d' % i) for i in range(self.no)]
        self.base = [self.count >= 1, self.count <= self.no]
        self.sign = []
        self.signed = [z3.Bool('has_sign%d' % i) for i in range(self.no)]
        for i in range(self.no):
            s, c = SymStr.fresh('sign%d' % i, 1, '+-', minlen=1)
            self.sign.append(s)
            self.base += c + [self.which[i] >= 0, self.which[i] < len(OPTS)]

    def run(self, ex):
        from sea.core import SymBool, SymInt
        D = self.directive
        cnt = int(SymInt(self.count))
        names, optstr = [], None
        spec = []
        for i in range(cnt):
            o = OPTS[int(SymInt(self.which[i]))]
            names.append(o)
            signed = bool(SymBool(self.signed[i]))
            if signed and (o.startswith('REQUIRES') or cnt > 1):
                # long option text: the sign is forked instead of merged
                neg = bool(self.sign[i] == '-')
                piece = ('-' if neg else '+') + o
                positive = z3.BoolVal(not neg)
            else:
                piece = (self.sign[i] + o) if signed else o
                positive = zbool(self.sign[i] != '-') if signed else z3.BoolVal(True)
            optstr = piece if optstr is None else optstr + ',' + piece
            if o.startswith('REQUIRES'):
                pos = bool(SymBool(positive))
                spec.append(('REQUIRES', pos, o[9:-1]))
            else:
                spec.append((o, positive, None))
        ns = {'options': optstr, 'offset_linenos': False, 'colored': False, 'reportchoice': 'udiff',
              'global_exec': None, 'supress_import_errors': False, 'verbose': 0}
        raised = None
        try:
            cfg = self.de.DoctestConfig()._populate_from_cli(ns)
            rs = D.RuntimeState(cfg['default_runtime_state'])
            rs.update([])
            eff_skip = rs['SKIP']
            nreq = len(rs['REQUIRES'])
            req = set(rs['REQUIRES'])
        except Exception as e:
            raised = e
        if raised is not None:
            if os.environ.get('SEA_DEBUG'):
                import traceback
                traceback.print_exception(raised)
            return {'options_accepted': z3.BoolVal(False)}
        P = Ref({k: z3.BoolVal(bool(D.DEFAULT_RUNTIME_STATE[k])) for k in FLAGS}, set())
        P, _ = step_ref(P, spec, False)
        conds = []
        for k in FLAGS:
            v = rs[k]
            conds.append(zbool(v == SymBool(P.flags[k])) if not isinstance(v, bool) else (P.flags[k] == z3.BoolVal(v)))
        props = {'defaults_equal_leading_block_flags': z3.And(conds),
                 'defaults_equal_leading_block_requirements': z3.BoolVal(req == P.req)}
        ex.witness('negative_option', z3.Or([z3.And(self.signed[i], zbool(self.sign[i] == '-')) for i in range(cnt)]))
        if any(o.startswith('REQUIRES') for o in names):
            ex.witness('requires_option', True)
        return props

    def describe(self, model):
        n = model.eval(self.count, model_completion=True).as_long()
        opts = []
        for i in range(n):
            sg = self.sign[i].concrete(model) if z3.is_true(model.eval(self.signed[i], model_completion=True)) else ''
            opts.append(sg + OPTS[model.eval(self.which[i], model_completion=True).as_long()])
        return {'harness': 'defaults', 'options': ','.join(opts)}


def build(job):
    if job['harness'] == 'chunk':
        from . import c01
        return c01.Chunk(job)
    return {'step': Step, 'run': RunRule, 'defaults': Defaults}[job['harness']](job)


# ---------------------------------------------------------------- replay (uninstrumented code)

def _pyref_apply(flags, req, d, target_flags, target_req):
    name, pos, arg = d['name'], d['positive'], d.get('arg')
    if name == 'REQUIRES':
        if arg in UNMET:
            (target_req.add if pos else target_req.discard)(arg)
    elif name.startswith('REPORT_'):
        if not pos:
            for k in REPORTS:
                target_flags[k] = (k == name)
    else:
        target_flags[name] = pos


def replay(job, cex):
    os.environ['XDV_M'] = '1'
    os.environ.pop('XDV_A', None)
    os.environ.pop('XDV_B', None)
    from xdoctest import directive as D
    h = cex.get('harness')
    if h == 'chunk':
        from . import c01
        r = c01.replay(job, cex)
        if r.get('signature'):
            r['signature'] = r['signature'].replace('C01:', 'C04:')
        return r
    if h == 'step':
        # reach the pre-state by a HISTORY of block directives from a fresh state
        rs = D.RuntimeState()
        hist = [D.Directive(k, v, [], False) for k, v in cex['pre_flags'].items() if k in FLAGS]
        hist += [D.Directive(k, False, [], False) for k, v in cex['pre_flags'].items() if k in REPORTS and v]
        hist += [D.Directive('REQUIRES', True, [a], False) for a in cex['pre_requires']]
        rs.update(hist)
        if not any(cex['pre_flags'][k] for k in REPORTS):
            for k in REPORTS:
                rs._global_state[k] = False
        pf = {k: rs._global_state[k] for k in FLAGS + REPORTS}
        pr = set(rs._global_state['REQUIRES'])
        if pf != {k: cex['pre_flags'][k] for k in FLAGS + REPORTS} or pr != set(cex['pre_requires']):
            return {'reproduced': False, 'detail': 'could not reach the pre-state: %r %r' % (pf, pr)}
        if cex['leftover'] == 1:
            rs.update([D.Directive('SKIP', True, [], True), D.Directive('ELLIPSIS', False, [], True)])
        elif cex['leftover'] == 2:
            try:
                rs.update([D.Directive('REQUIRES', True, [UNMET[0]], True)])
            except Exception:
                pass
        ef, er = dict(pf), set(pr)
        tf, tr = (ef, er) if cex['inline'] else (pf, pr)
        for d in cex['directives']:
            _pyref_apply(None, None, d, tf, tr)
        if not cex['inline']:
            ef, er = dict(pf), set(pr)
        dirs = [D.Directive(d['name'], d['positive'], [d['arg']] if d.get('arg') else [], cex['inline']) for d in cex['directives']]
        try:
            rs.update(dirs)
        except Exception as e:
            return {'reproduced': True, 'detail': 'RuntimeState.update raised %r' % (e,),
                    'signature': 'C04:step:raises:%s:%s' % (type(e).__name__, '+'.join(sorted(d['name'] for d in cex['directives'])))}
        bad = []
        for k in FLAGS + REPORTS:
            if rs._global_state[k] != pf[k]:
                bad.append('persistent:' + k)
            if rs[k] != ef[k]:
                bad.append('effective:' + k)
        if set(rs._global_state['REQUIRES']) != pr:
            bad.append('persistent:REQUIRES')
        if set(rs['REQUIRES']) != er:
            bad.append('effective:REQUIRES')
        sig = 'C04:step:%s:%s' % ('inline' if cex['inline'] else 'block', ','.join(sorted(set(b.split(':')[0] + ':' + ('REPORT' if 'REPORT' in b else b.split(':')[1]) for b in bad))))
        return {'reproduced': bool(bad), 'detail': 'state after update differs in %s (expected persistent %r %r, effective %r %r)' % (bad, pf, sorted(pr), ef, sorted(er)),
                'signature': sig}
    if h == 'defaults':
        from xdoctest import doctest_example, core
        ns = {'options': cex['options'], 'offset_linenos': False, 'colored': False, 'reportchoice': 'udiff',
              'global_exec': None, 'supress_import_errors': False, 'verbose': 0}
        docstr_tail = '>>> print(1)\n1\n'
        lead = '>>> # xdoctest: ' + cex['options'] + '\n'
        try:
            cfg = doctest_example.DoctestConfig()._populate_from_cli(ns)
            a = list(core.parse_docstr_examples(docstr_tail))[0]
            a.config.update(cfg)
            sa = a.run(on_error='return', verbose=0)
            ra = (sa['passed'], sa['failed'], sa['skipped'])
        except Exception as e:
            ra = 'raised %s: %s' % (type(e).__name__, e)
        b = list(core.parse_docstr_examples(lead + docstr_tail))[0]
        sb = b.run(on_error='return', verbose=0)
        rb = (sb['passed'], sb['failed'], sb['skipped'])
        kind = 'REQUIRES' if 'REQUIRES' in cex['options'] else 'flag'
        return {'reproduced': ra != rb, 'detail': 'options=%r as --options: %r; as leading block directive: %r' % (cex['options'], ra, rb),
                'signature': 'C04:defaults:%s:%s' % (kind, 'raises' if isinstance(ra, str) else 'differs')}
    if h == 'run':
        return replay_run(cex)
    return {'reproduced': False, 'detail': 'unknown harness'}


def replay_run(cex):
    """realise the events as a docstring and run it through the public API"""
    from xdoctest import core
    lines = []
    code_idx = []
    for i, e in enumerate(cex['events']):
        dtxt = None
        if e['kind'] != 'plain':
            dtxt = '# xdoctest: %s%s%s' % ('+' if e['positive'] else '-', e['name'], '(%s)' % e['arg'] if e.get('arg') else '')
        if e['kind'] == 'block':
            lines.append('>>> ' + dtxt)
            continue
        out = 'w' if e.get('output_matches') else 'x'
        stmt = ">>> TRACE.append(%d); print(%r)" % (i, out) if e.get('has_want') else ">>> TRACE.append(%d)" % i
        if e['kind'] == 'inline':
            stmt += '  ' + dtxt
        lines.append(stmt)
        if e.get('has_want'):
            lines.append('w')
        code_idx.append(i)
    doc = '\n'.join(lines) + '\n'
    dt = list(core.parse_docstr_examples(doc))[0]
    TRACE = []
    dt.global_namespace['TRACE'] = TRACE
    strict = {'ELLIPSIS': False, 'NORMALIZE_WHITESPACE': False, 'NORMALIZE_REPR': False}
    dt.config['default_runtime_state'] = strict
    try:
        summ = dt.run(on_error='return', verbose=0)
        real = {'failed': summ['failed'], 'passed': summ['passed'], 'skipped': summ['skipped'], 'trace': list(TRACE)}
    except Exception as e:
        real = {'raised': '%s: %s' % (type(e).__name__, e), 'trace': list(TRACE)}
    # python reference
    skip, iw, req = False, False, set()
    exp_trace, failed = [], False
    for i, e in enumerate(cex['events']):
        es, ei, er = skip, iw, set(req)
        if e['kind'] != 'plain':
            tgt_inline = e['kind'] == 'inline'
            if e['name'] == 'SKIP':
                es = e['positive']
            elif e['name'] == 'IGNORE_WANT':
                ei = e['positive']
            elif e['name'] == 'REQUIRES' and e['arg'] in UNMET:
                (er.add if e['positive'] else er.discard)(e['arg'])
            if not tgt_inline:
                skip, iw, req = es, ei, er
        if e['kind'] == 'block':
            continue
        if not es and not er:
            exp_trace.append(i)
            if e.get('has_want') and not ei and not e.get('output_matches'):
                failed = True
                break
    exp = {'failed': failed, 'passed': (not failed) and bool(exp_trace), 'skipped': (not failed) and not exp_trace, 'trace': exp_trace}
    bad = [k for k in exp if real.get(k) != exp[k]]
    names = '+'.join(sorted(set('%s-%s' % (e['kind'], e.get('name')) for e in cex['events'] if e['kind'] != 'plain')))
    return {'reproduced': bool(bad), 'detail': 'docstring %r: expected %r, real %r' % (doc, exp, real),
            'signature': 'C04:run:%s:%s' % (','.join(bad), names)}
