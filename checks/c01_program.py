"""C01 program_parts: shared between the harness (instrumented worker) and the
replay (plain interpreter): a doctest text generated from a statement grammar,
and the oracle that says which part every statement must end up in.

A case is a dict:
  {'stmts': [{'kind': int, 'style': int, 'directive': bool, 'want': bool}, ...],
   'indent': 0 | 4, 'prose': bool}
"""

# statement grammar: program lines; {i} is the statement's index (all statements distinct)
KINDS = [
    ('simple', ['x{i} = {i}']),
    ('expression', ['print({i})']),
    ('compound', ['for j{i} in range(2):', '    y{i} = j{i}']),
    ('decorated_def', ['@deco', 'def f{i}():', '    return {i}']),
    ('decorated_async_def', ['@deco', 'async def g{i}():', '    return {i}']),
    ('decorated_class', ['@deco', 'class K{i}:', '    a = {i}']),
    ('bracket', ['z{i} = [{i},', '     2]']),
    ('triple_quoted', ["s{i} = '''a{i}", '  b', "c'''"]),
    ('comment', ['# note {i}']),
    ('await', ['await h({i})']),
    ('async_with', ['async with ctx({i}) as c{i}:', '    w{i} = c{i}']),
    ('double_decorated', ['@deco', '@deco2({i})', 'def d{i}():', '    return {i}']),
]
# prompt styles: 0 '>>> ' on every line, 1 '>>> ' then '... ', 2 '>>> ' then unprefixed (only meaningful inside a string literal)
STYLES = 3
DIRECTIVE = '  # xdoctest: +SKIP'
WANT = 'want {i}'


def stmt_lines(i, st):
    return [l.replace('{i}', str(i)) for l in KINDS[st['kind']][1]]


def applicable(st):
    """style 2 (unprefixed continuation lines) only inside the triple-quoted string; a comment takes no want"""
    name = KINDS[st['kind']][0]
    if st['style'] == 2 and name != 'triple_quoted':
        return False
    if len(KINDS[st['kind']][1]) == 1 and st['style'] != 0:
        return False
    if name == 'comment' and (st['want'] or st['directive']):
        return False
    if name == 'triple_quoted' and st['directive']:
        return False            # text after the opening quotes is string content, not a comment
    return True


def doctest_text(case):
    """-> (docstring text, program: list of (statement index, line))"""
    pad = ' ' * case['indent']
    out = []
    if case['prose']:
        out += ['Prose at the left margin.', '']
    prog = []
    for i, st in enumerate(case['stmts']):
        lines = stmt_lines(i, st)
        for j, l in enumerate(lines):
            text = l + (DIRECTIVE if (j == 0 and st['directive']) else '')
            prog.append((i, text))
            if j == 0 or st['style'] == 0:
                out.append(pad + '>>> ' + text)
            elif st['style'] == 1:
                out.append(pad + '... ' + text)
            else:
                out.append(pad + text)
        if st['want']:
            out.append(pad + WANT.replace('{i}', str(i)))
    return '\n'.join(out) + '\n', prog


def problems(parser_mod, case):
    """runs the REAL parser; returns a list of violations of 'runs exactly as written':
    (1) the executable lines of all parts, in order, are the program, line for line;
    (2) no statement is split over two parts;
    (3) a statement with an inline directive is alone in its part (the directive governs exactly it);
    (4) a statement followed by a want ends its part, and that part's want is the want."""
    text, prog = doctest_text(case)
    try:
        parts = parser_mod.DoctestParser().parse(text)
    except Exception as e:
        return ['parse raises %s: %s' % (type(e).__name__, e)]
    dparts = [p for p in parts if not isinstance(p, str)]
    flat = []
    for pi, p in enumerate(dparts):
        for l in '\n'.join(p.exec_lines).split('\n'):
            flat.append((pi, l))
    bad = []
    got_lines = [l for _, l in flat]
    exp_lines = [l for _, l in prog]
    if got_lines != exp_lines:
        return ['executable lines differ from the program: %r != %r' % (got_lines, exp_lines)]
    part_of = {}
    for (pi, _), (si, _) in zip(flat, prog):
        part_of.setdefault(si, set()).add(pi)
    for si, ps in sorted(part_of.items()):
        if len(ps) > 1:
            bad.append('statement %d is split over parts %s' % (si, sorted(ps)))
    stmts_in = {}
    for si, ps in part_of.items():
        for pi in ps:
            stmts_in.setdefault(pi, set()).add(si)
    for i, st in enumerate(case['stmts']):
        pi = min(part_of[i])
        if st['directive'] and stmts_in[pi] != {i}:
            bad.append('statement %d carries an inline directive but shares part %d with statements %s' % (i, pi, sorted(stmts_in[pi] - {i})))
        if st['want']:
            p = dparts[pi]
            if max(stmts_in[pi]) != i:
                bad.append('statement %d has a want but is not the last statement of its part' % i)
            if (p.want or '').strip() != WANT.replace('{i}', str(i)):
                bad.append('statement %d: want is %r' % (i, p.want))
        else:
            pi_last = max(part_of[i])
            if max(stmts_in[pi_last]) == i and dparts[pi_last].want and not any(s['want'] for s in case['stmts'][i:i + 1]):
                bad.append('statement %d has no want but its part has want %r' % (i, dparts[pi_last].want))
    return bad
