"""C07 - collection is exact: every documented callable yields its doctests once.
(also the module generator used by C16)

inventory    a SYMBOLIC MODULE SKELETON (k top-level items, each from a menu of 16
             shapes: def / async def / class with plain, static, class methods and a
             property with setter and deleter / nested def / nested class / definitions
             under if, try, with / the __main__ guard / a negated __main__ test /
             decorated callables / an imported name / undocumented callables; docstrings
             in google layout with 1..2 Example blocks, freeform layout, or without
             examples; an optional module docstring) is unparsed to source and
             collected by the REAL core.parse_doctestables(path, style, analysis=static)
             - CPython's parser, TopLevelVisitor, the google splitter and the freeform
             grouping are all real.  Oracle: the inventory defined by the statement,
             computed from the skeleton: every doctest exactly once under
             callname:num, identifiers unique, nothing else.
package_walk the real package_modpaths / package_calldefs over a symbolic directory
             skeleton (which directories have an __init__.py) materialised as a real
             tree: exactly the modules linked to the package root by an unbroken
             __init__.py chain, each once.
Enumeration through the explorer (real execution per schedule): the text -> AST step
is CPython and cannot be made symbolic.
"""
import z3
from .common import Harness, zbool, instrumented

PROPERTY = 'C07'
LEVEL = 'exploration'      # the solver enumerates a schedule / skeleton; the data of a path are concrete (DESIGN.md section 4)

G1 = '    """\n    Example:\n        >>> x = 1\n    """\n'
G2 = '    """\n    Summary.\n\n    Example:\n        >>> x = 1\n\n    Example:\n        >>> y = 2\n    """\n'
FF = '    """\n    prose first\n\n    >>> z = 3\n    """\n'
NOEX = '    """only prose"""\n'


def ind(text, n=4):
    return ''.join((' ' * n + l if l.strip() else l) for l in text.splitlines(True))


# every shape: (source template, [(callname, docstring kind)] expected to be collected)
def shapes(i):
    f = 'f%d' % i
    C = 'C%d' % i
    return [
        ('def %s():\n%s    return 1\n' % (f, G1), [(f, 'g1')]),
        ('async def %s():\n%s    return 1\n' % (f, G2), [(f, 'g2')]),
        ('class %s:\n%s    def m(self):\n%s        return 1\n' % (C, G1, ind(G1)), [(C, 'g1'), (C + '.m', 'g1')]),
        ('class %s:\n    @property\n    def p(self):\n%s        return 1\n    @p.setter\n    def p(self, v):\n%s        pass\n    @p.deleter\n    def p(self):\n%s        pass\n'
         % (C, ind(G1), ind(G1), ind(G1)), [(C + '.p', 'g1')]),
        ('class %s:\n    @staticmethod\n    def s():\n%s        return 1\n    @classmethod\n    def c(cls):\n%s        return 1\n    async def a(self):\n%s        return 1\n'
         % (C, ind(FF), ind(G1), ind(G1)), [(C + '.s', 'ff'), (C + '.c', 'g1'), (C + '.a', 'g1')]),
        ('def %s():\n%s    def inner():\n%s        return 1\n    return inner\n' % (f, G1, ind(G1)), [(f, 'g1')]),
        ('class %s:\n%s    class Inner:\n%s        def im(self):\n%s            return 1\n' % (C, G1, ind(G1), ind(G1, 8)), [(C, 'g1')]),
        ('if True:\n    def %s():\n%s        return 1\n' % (f, ind(G1)), [(f, 'g1')]),
        ("if __name__ == '__main__':\n    def %s():\n%s        return 1\n" % (f, ind(G1)), []),
        ('try:\n    def %s():\n%s        return 1\nexcept Exception:\n    pass\n' % (f, ind(FF)), [(f, 'ff')]),
        ('import functools\ndef deco%d(fn):\n    @functools.wraps(fn)\n    def wrapper(*a, **k):\n        return fn(*a, **k)\n    return wrapper\n@deco%d\ndef %s():\n%s    return 1\n'
         % (i, i, f, G1), [(f, 'g1')]),
        ('from os.path import join as %s\n' % f, []),
        ("if __name__ != '__main__':\n    def %s():\n%s        return 1\n" % (f, ind(G1)), [(f, 'g1')]),
        ('def %s():\n    return 1\n' % f, []),
        ('def %s():\n%s    return 1\n' % (f, NOEX), []),
        ('async def %s():\n%s    async def inner():\n%s        return 1\n    return 1\n' % (f, FF, ind(G1)), [(f, 'ff')]),
    ]


NSHAPES = 16
BOUNDS = {'quick': 'inventory: 2 top-level items x %d shapes, module docstring or not, style auto/google/freeform; package_walk: 3 nested directories' % NSHAPES,
          'thorough': 'inventory: 3 items; package_walk: 4 directories'}
OUTSIDE = 'text -> AST (CPython parser; the skeleton is unparsed to real source and really parsed); docstring text extraction (ast.get_docstring); xdoctest <mod> list is C10'
ASSUMPTIONS = ['the inventory of a skeleton is computed from the statement: module docstring; def / async def / class at module scope (also under if/try/with, not under the __main__ guard); '
               'def / async def directly in such a class; no setters / deleters; nothing nested in a function or in a nested class']


def expected(items, style, moddoc):
    """-> list of identifiers callname:num expected for the style"""
    out = []
    if moddoc:
        out.append('__doc__:0')
    for callname, kind in items:
        if kind == 'g1':
            n_google, n_free = 1, 1
        elif kind == 'g2':
            n_google, n_free = 2, 1
        else:
            n_google, n_free = 0, 1
        if style == 'google':
            n = n_google
        elif style == 'freeform':
            n = n_free
        else:
            n = n_google if n_google else n_free
        out += ['%s:%d' % (callname, j) for j in range(n)]
    return out


def jobs(tier):
    q = tier == 'quick'
    return [{'ob': 'inventory', 'harness': 'inv', 'k': 2 if q else 3, 'splits': [2, 4, 6], 'query_timeout_s': 60, 'bounds': BOUNDS[tier]},
            {'ob': 'package_walk', 'harness': 'walk', 'splits': [3, 6], 'query_timeout_s': 60,
             'bounds': 'package with sub / sub/deep / other directories, each with or without __init__.py, a module in each'}]


class Skeleton:
    def __init__(self, K):
        self.K = K
        self.shape = [z3.Int('item%d' % i) for i in range(K)]
        self.moddoc = z3.Bool('module_docstring')
        self.style = z3.Int('style')
        self.base = [self.style >= 0, self.style <= 2]
        for v in self.shape:
            self.base += [v >= 0, v < NSHAPES]

    def concretise(self):
        from sea.core import SymBool, SymInt
        sh = [int(SymInt(v)) for v in self.shape]
        return sh, bool(SymBool(self.moddoc)), ['auto', 'google', 'freeform'][int(SymInt(self.style))]

    def source(self, sh, moddoc):
        src = '"""\nModule docs.\n\nExample:\n    >>> m = 0\n"""\n' if moddoc else ''
        items = []
        for i, s in enumerate(sh):
            text, exp = shapes(i)[s]
            src += text + '\n'
            items += exp
        return src, items

    def describe(self, model):
        def n(v):
            return model.eval(v, model_completion=True).as_long()
        return {'shapes': [n(v) for v in self.shape], 'module_docstring': z3.is_true(model.eval(self.moddoc, model_completion=True)),
                'style': ['auto', 'google', 'freeform'][n(self.style)]}


def write_module(src, name):
    import os
    import tempfile
    d = tempfile.mkdtemp(prefix='xdv-c07-')
    path = os.path.join(d, name + '.py')
    with open(path, 'w') as f:
        f.write(src)
    return d, path


class Inventory(Harness):
    witnesses = ('async_callable', 'nested_not_collected', 'main_guard_skipped', 'two_google_blocks', 'setter_skipped')

    def __init__(self, job):
        instrumented()
        from xdoctest import core
        self.core = core
        self.job = job
        self.S = Skeleton(job['k'])
        self.base = self.S.base
        from sea import instrument
        instrument.RT.STUBS['print'] = lambda *a, **k: None

    def run(self, ex):
        import shutil
        import warnings
        sh, moddoc, style = self.S.concretise()
        src, items = self.S.source(sh, moddoc)
        d, path = write_module(src, 'm_c07')
        try:
            with warnings.catch_warnings(record=True):
                warnings.simplefilter('always')
                got = [e.unique_callname for e in self.core.parse_doctestables(path, style=style, analysis='static')]
        except Exception as e:
            self.last_error = '%s: %s' % (type(e).__name__, e)
            return {'collection_returns': z3.BoolVal(False)}
        finally:
            shutil.rmtree(d, ignore_errors=True)
        exp = expected(items, style, moddoc)
        self.last_error = (src, got, exp)
        if 1 in sh or 15 in sh:
            ex.witness('async_callable', True)
        if 5 in sh or 6 in sh:
            ex.witness('nested_not_collected', True)
        if 8 in sh:
            ex.witness('main_guard_skipped', True)
        if 1 in sh and style != 'freeform':
            ex.witness('two_google_blocks', True)
        if 3 in sh:
            ex.witness('setter_skipped', True)
        return {'every_doctest_exactly_once': z3.BoolVal(sorted(got) == sorted(exp)),
                'identifiers_unique': z3.BoolVal(len(set(got)) == len(got)),
                'in_source_order': z3.BoolVal(got == exp)}

    def describe(self, model):
        return dict(self.S.describe(model), harness='inv')


DIRS = ['pkg', 'pkg/sub', 'pkg/sub/deep', 'pkg/other', 'pkg/other/vendored']


class Walk(Harness):
    witnesses = ('broken_chain_below', 'all_packages')

    def __init__(self, job):
        instrumented()
        from xdoctest import static_analysis, core
        self.st, self.core = static_analysis, core
        self.init = [z3.Bool('has_init:' + d) for d in DIRS]
        self.base = [self.init[0]]

    def run(self, ex):
        import os
        import shutil
        import tempfile
        from sea.core import SymBool
        inits = [bool(SymBool(v)) for v in self.init]
        root = tempfile.mkdtemp(prefix='xdv-c07w-')
        try:
            for dname, has in zip(DIRS, inits):
                os.makedirs(os.path.join(root, dname), exist_ok=True)
                if has:
                    open(os.path.join(root, dname, '__init__.py'), 'w').close()
                with open(os.path.join(root, dname, 'mod_%s.py' % dname.replace('/', '_')), 'w') as f:
                    f.write('def f():\n    """\n    Example:\n        >>> x = 1\n    """\n')
            got = sorted(os.path.relpath(p, root) for p in self.st.package_modpaths(os.path.join(root, 'pkg')))
            names = sorted(os.path.relpath(mp, root) for calldefs, mp in self.core.package_calldefs(os.path.join(root, 'pkg')))
        except Exception as e:
            self.last_error = '%s: %s' % (type(e).__name__, e)
            return {'walk_returns': z3.BoolVal(False)}
        finally:
            shutil.rmtree(root, ignore_errors=True)
        has = dict(zip(DIRS, inits))
        exp, exp_inits = [], []
        for dname in DIRS:
            chain = True
            parts = dname.split('/')
            for j in range(1, len(parts) + 1):
                chain = chain and has['/'.join(parts[:j])]
            if chain:
                exp.append(os.path.join(dname, 'mod_%s.py' % dname.replace('/', '_')))
                exp_inits.append(os.path.join(dname, '__init__.py'))
        if not has['pkg/other'] and has['pkg/other/vendored']:
            ex.witness('broken_chain_below', True)
        if all(inits):
            ex.witness('all_packages', True)
        return {'exactly_the_modules_of_the_package': z3.BoolVal(got == sorted(exp)), 'calldefs_for_the_same_modules_and_their_packages': z3.BoolVal(names == sorted(exp + exp_inits))}

    def describe(self, model):
        return {'harness': 'walk', 'init': {d: z3.is_true(model.eval(v, model_completion=True)) for d, v in zip(DIRS, self.init)}}


def build(job):
    return Inventory(job) if job['harness'] == 'inv' else Walk(job)


# ---------------------------------------------------------------- replay (uninstrumented)

def replay(job, cex):
    import os
    import shutil
    import tempfile
    import warnings
    from xdoctest import core, static_analysis
    if cex['harness'] == 'walk':
        root = tempfile.mkdtemp(prefix='xdv-c07w-')
        try:
            for dname in DIRS:
                os.makedirs(os.path.join(root, dname), exist_ok=True)
                if cex['init'][dname]:
                    open(os.path.join(root, dname, '__init__.py'), 'w').close()
                open(os.path.join(root, dname, 'mod_%s.py' % dname.replace('/', '_')), 'w').close()
            got = sorted(os.path.relpath(p, root) for p in static_analysis.package_modpaths(os.path.join(root, 'pkg')))
            exp = []
            for dname in DIRS:
                parts = dname.split('/')
                if all(cex['init']['/'.join(parts[:j])] for j in range(1, len(parts) + 1)):
                    exp.append(os.path.join(dname, 'mod_%s.py' % dname.replace('/', '_')))
            return {'reproduced': got != sorted(exp), 'detail': 'tree %r: package_modpaths gives %r, the package holds %r' % (cex['init'], got, sorted(exp)),
                    'signature': 'C07:package-walk'}
        finally:
            shutil.rmtree(root, ignore_errors=True)
    S = Skeleton(len(cex['shapes']))
    src, items = S.source(cex['shapes'], cex['module_docstring'])
    d, path = write_module(src, 'm_c07_replay')
    try:
        with warnings.catch_warnings(record=True):
            warnings.simplefilter('always')
            got = [e.unique_callname for e in core.parse_doctestables(path, style=cex['style'], analysis='static')]
    finally:
        shutil.rmtree(d, ignore_errors=True)
    exp = expected(items, cex['style'], cex['module_docstring'])
    missing = sorted(set(exp) - set(got))
    extra = sorted(set(got) - set(exp))
    kind = ('missing' if missing else '') + ('extra' if extra else '') + ('' if (missing or extra) else ('order-or-duplicates' if got != exp else ''))
    return {'reproduced': got != exp, 'detail': 'module %r style %s: collected %r, inventory %r' % (src, cex['style'], got, exp),
            'signature': 'C07:inventory:' + kind}
