"""C16 - static and dynamic analysis find the same doctests.

The symbolic module skeleton of C07 (k top-level items from a menu of shapes:
def / async def / classes with plain, static, class methods and properties /
nested definitions / definitions under if, try / the __main__ guard and a
negated __main__ test / callables decorated with a functools.wraps decorator
defined in the module or imported from a sibling module / imported names that
must be ignored) is unparsed to source, written to a real module and collected
twice by the REAL core.parse_doctestables: analysis='static' (TopLevelVisitor
on the source) and analysis='dynamic' (import + iter_module_doctestables /
is_defined_by_module).  Same identifiers, same doctest source.  Enumeration
through the explorer with real execution on both sides: the step source ->
module object is CPython and cannot be made symbolic (DESIGN.md section 6).
"""
import z3
from .common import Harness, zbool, instrumented
from . import c07

PROPERTY = 'C16'
LEVEL = 'exploration'      # the solver enumerates a schedule / skeleton; the data of a path are concrete (DESIGN.md section 4)
BOUNDS = {'quick': '2 top-level items x %d shapes (+2 decorator shapes), styles auto / google / freeform' % c07.NSHAPES, 'thorough': '3 items'}
OUTSIDE = 'modules whose callables are not defined by ordinary def/class statements in that module (the statement excludes them); compiled extension modules; import side effects'
ASSUMPTIONS = ['shapes the statement excludes are not generated: property setters/deleters with their own doctests, callables bound by assignment']

EXTRA = 2


def shapes(i):
    base = c07.shapes(i)
    f = 'f%d' % i
    extra = [
        ('from c16_helper_decorators import passthrough\n@passthrough\ndef %s():\n%s    return 1\n' % (f, c07.G1), [(f, 'g1')]),
        ('import contextlib\n@contextlib.contextmanager\ndef %s():\n%s    yield 1\n' % (f, c07.G1), [(f, 'g1')]),
    ]
    return base + extra


HELPER = 'import functools\n\ndef passthrough(fn):\n    @functools.wraps(fn)\n    def wrapper(*a, **k):\n        return fn(*a, **k)\n    return wrapper\n'
# shapes where the two analyses legitimately see different things and that the statement excludes
EXCLUDED = {3}      # property with setter / deleter docstrings: the dynamic view has ONE property object


def jobs(tier):
    q = tier == 'quick'
    return [{'ob': 'static_equals_dynamic', 'harness': 'sd', 'k': 2 if q else 3, 'splits': [2, 4, 6], 'query_timeout_s': 60, 'bounds': BOUNDS[tier]}]


class SD(Harness):
    witnesses = ('async_callable', 'decorated_by_imported_wraps', 'negated_main_test', 'imported_name_ignored')

    def __init__(self, job):
        instrumented()
        from xdoctest import core
        self.core = core
        self.job = job
        K = self.K = job['k']
        self.shape = [z3.Int('item%d' % i) for i in range(K)]
        self.style = z3.Int('style')
        self.base = [self.style >= 0, self.style <= 2]
        n = c07.NSHAPES + EXTRA
        for v in self.shape:
            self.base += [v >= 0, v < n] + [v != e for e in EXCLUDED]
        self.counter = 0
        from sea import instrument
        instrument.RT.STUBS['print'] = lambda *a, **k: None

    def collect(self, sh, style, modname):
        import os
        import sys
        import shutil
        import tempfile
        import warnings
        src = ''
        for i, s in enumerate(sh):
            src += shapes(i)[s][0] + '\n'
        d = tempfile.mkdtemp(prefix='xdv-c16-')
        try:
            path = os.path.join(d, modname + '.py')
            with open(path, 'w') as f:
                f.write(src)
            with open(os.path.join(d, 'c16_helper_decorators.py'), 'w') as f:
                f.write(HELPER)
            sys.path.insert(0, d)
            res = {}
            with warnings.catch_warnings(record=True):
                warnings.simplefilter('always')
                for analysis in ('static', 'dynamic'):
                    res[analysis] = sorted((e.unique_callname, e.docsrc) for e in self.core.parse_doctestables(path, style=style, analysis=analysis))
            return src, res
        finally:
            if d in sys.path:
                sys.path.remove(d)
            for m in (modname, 'c16_helper_decorators'):
                sys.modules.pop(m, None)
            shutil.rmtree(d, ignore_errors=True)

    def run(self, ex):
        from sea.core import SymInt
        sh = [int(SymInt(v)) for v in self.shape]
        style = ['auto', 'google', 'freeform'][int(SymInt(self.style))]
        self.counter += 1
        try:
            src, res = self.collect(sh, style, 'm_c16_%d' % self.counter)
        except Exception as e:
            self.last_error = '%s: %s' % (type(e).__name__, e)
            return {'both_analyses_return': z3.BoolVal(False)}
        self.last_error = (src, res)
        if 1 in sh or 15 in sh:
            ex.witness('async_callable', True)
        if c07.NSHAPES in sh:
            ex.witness('decorated_by_imported_wraps', True)
        if 12 in sh:
            ex.witness('negated_main_test', True)
        if 11 in sh:
            ex.witness('imported_name_ignored', True)
        return {'same_identifiers': z3.BoolVal([a for a, b in res['static']] == [a for a, b in res['dynamic']]),
                'same_doctest_source': z3.BoolVal(res['static'] == res['dynamic'])}

    def describe(self, model):
        def n(v):
            return model.eval(v, model_completion=True).as_long()
        return {'harness': 'sd', 'shapes': [n(v) for v in self.shape], 'style': ['auto', 'google', 'freeform'][n(self.style)]}


def build(job):
    return SD(job)


def replay(job, cex):
    import os
    import sys
    import shutil
    import tempfile
    import warnings
    from xdoctest import core
    src = ''
    for i, s in enumerate(cex['shapes']):
        src += shapes(i)[s][0] + '\n'
    d = tempfile.mkdtemp(prefix='xdv-c16-')
    try:
        path = os.path.join(d, 'm_c16_replay.py')
        with open(path, 'w') as f:
            f.write(src)
        with open(os.path.join(d, 'c16_helper_decorators.py'), 'w') as f:
            f.write(HELPER)
        sys.path.insert(0, d)
        res = {}
        with warnings.catch_warnings(record=True):
            warnings.simplefilter('always')
            for analysis in ('static', 'dynamic'):
                res[analysis] = sorted((e.unique_callname, e.docsrc) for e in core.parse_doctestables(path, style=cex['style'], analysis=analysis))
        only_s = sorted(set(a for a, b in res['static']) - set(a for a, b in res['dynamic']))
        only_d = sorted(set(a for a, b in res['dynamic']) - set(a for a, b in res['static']))
        return {'reproduced': res['static'] != res['dynamic'], 'detail': 'module %r style %s: only static %r, only dynamic %r' % (src, cex['style'], only_s, only_d),
                'signature': 'C16:%s%s' % ('only-static' if only_s else '', 'only-dynamic' if only_d else '')}
    finally:
        if d in sys.path:
            sys.path.remove(d)
        for m in ('m_c16_replay', 'c16_helper_decorators'):
            sys.modules.pop(m, None)
        shutil.rmtree(d, ignore_errors=True)
