"""C12 - process-global state is restored after every outcome.

run_restores     the real DocTest.run with the REAL utils.CaptureStdout /
                 TeeStringIO, warnings.catch_warnings and asyncio.run, driven
                 by a symbolic FAULT SCHEDULE: which part terminates the run and
                 how (pass, output mismatch, exception, expected exception,
                 ExitTestException, all skipped, pre-import failure, SystemExit,
                 KeyboardInterrupt), what the parts do to the process (print,
                 replace sys.stdout and leave it, close the replacement, change
                 the warning filters, await), on_error return / raise.  After
                 the call returns OR raises: sys.stdout / sys.stderr are the
                 original objects, sys.path is unchanged, warnings.filters and
                 warnings.showwarning are unchanged, no event loop is running;
                 the stdout logged for every part is exactly what it wrote, and
                 a doctest run next receives none of it.
import_restores  the real utils.import_module_from_path -> _custom_import_modpath
                 -> PythonPathContext with import_module_from_name stubbed (it
                 returns, raises, and may itself add entries to sys.path at a
                 symbolic position): afterwards sys.path is what it was plus
                 the module's own additions, whether or not the import succeeds.

The data are concrete, the schedule is symbolic: fault-point exploration driven
by the solver - the weakest use of the technique, claimed as such.
"""
import z3
from .common import Harness, zbool
from . import hrun

PROPERTY = 'C12'
LEVEL = 'fault_enumeration'      # the solver enumerates a schedule / skeleton; the data of a path are concrete (DESIGN.md section 4)
KINDS = ['pass', 'mismatch', 'exception', 'expected_exception', 'exit_test', 'all_skipped', 'import_failure',
         'system_exit', 'keyboard_interrupt']
SIDE = ['print', 'nothing', 'replace_stdout', 'replace_and_close_stdout', 'alter_filters', 'await', 'print_then_replace', 'close_captured_stdout']
BOUNDS = {'quick': 'k=2 parts, terminating part and kind symbolic (9 kinds), side effect of every part from a menu of 7, on_error return/raise; import: index in -2..2, path edit position 0..3',
          'thorough': 'k=3 parts'}
OUTSIDE = 'what arbitrary doctest code may do to the process beyond the menu (threads, os.dup2, atexit handlers); real module import (import_module_from_name is a stub)'
ASSUMPTIONS = ['the module being imported only ADDS entries to sys.path (removing foreign entries is its own responsibility)']


def jobs(tier):
    q = tier == 'quick'
    return [{'ob': 'run_restores', 'harness': 'run', 'k': 2 if q else 3, 'splits': [3, 6, 9], 'query_timeout_s': 60, 'bounds': BOUNDS[tier]},
            {'ob': 'import_restores', 'harness': 'imp', 'splits': [3, 6], 'query_timeout_s': 60,
             'bounds': 'index in -2..2 (default -1), the imported module inserts an entry at position 0..3 or appends or does nothing, then returns or raises'}]


class RunRestores(Harness):
    witnesses = ('system_exit_propagates', 'stdout_replaced_by_last_part', 'expected_exception_after_print', 'filters_altered', 'filters_altered_in_pytest_mode', 'awaits')

    def __init__(self, job):
        self.m = hrun.install(real_capture=True)
        self.job = job
        K = self.K = job['k']
        self.f = z3.Int('terminating_part')
        self.kind = z3.Int('kind')
        self.side = [z3.Int('side%d' % i) for i in range(K)]
        self.onraise = z3.Bool('on_error_raise')
        self.pytest_mode = z3.Bool('pytest_mode')        # DocTest.mode: 'pytest' (the plugin, and the default of a directly built DocTest) or 'native'
        self.base = [self.f >= 0, self.f < K, self.kind >= 0, self.kind < len(KINDS)]
        for i in range(K):
            self.base += [self.side[i] >= 0, self.side[i] < len(SIDE)]
        self.m['ins'].RT.STUBS['print'] = lambda *a, **k: None
        ck = self.m['checker']
        self.stubs = ['compile/exec/eval -> harness stubs that really write to sys.stdout, replace it, change warning filters, await',
                      '_import_module -> raises for kind import_failure', 'print (of xdoctest itself) -> dropped']

    def run(self, ex):
        import sys
        import io
        import warnings
        import asyncio
        from sea.core import SymBool, SymInt
        m = self.m
        D = m['directive']
        E = hrun.ENV
        E.reset()
        K = self.K
        f = int(SymInt(self.f))
        kind = KINDS[int(SymInt(self.kind))]
        sides = [SIDE[int(SymInt(v))] for v in self.side]
        onraise = bool(SymBool(self.onraise))
        mode = 'pytest' if bool(SymBool(self.pytest_mode)) else 'native'
        wrote = {}
        leaked = []
        closed_capture = []
        P = m['doctest_part'].DoctestPart
        parts = []
        for i in range(K):
            dirs, want = [], None
            if kind == 'all_skipped' and i == 0:
                dirs = [D.Directive('SKIP', True, [], False)]
            if i == f and kind == 'mismatch':
                want = ['never printed']
            if i == f and kind == 'expected_exception':
                want = ['Traceback (most recent call last):', 'HarnessExc: harness exception of part %d' % i]
            src = 'x = %d #%d#' % (i, i)
            parts.append(P([src], want_lines=want, line_offset=i, orig_lines=['>>> ' + src], directives=dirs))

            def body(i=i):
                side = sides[i]
                text = ''
                if side in ('print', 'print_then_replace'):
                    text = 'P%d\n' % i
                    sys.stdout.write(text)
                if side in ('replace_stdout', 'replace_and_close_stdout', 'print_then_replace'):
                    other = io.StringIO()
                    sys.stdout = other
                    other.write('lost')
                    leaked.append(other)
                    if side == 'replace_and_close_stdout':
                        other.close()
                if side == 'close_captured_stdout':
                    sys.stdout.close()          # the doctest closes the stream it was given
                    closed_capture.append(i)
                if side == 'alter_filters':
                    warnings.simplefilter('error')
                    warnings.filterwarnings('ignore', message='xdv')
                wrote[i] = text
                if i == f:
                    if kind in ('exception', 'expected_exception'):
                        raise hrun.HarnessExc(i)
                    if kind == 'exit_test':
                        raise m['exceptions'].ExitTestException()
                    if kind == 'system_exit':
                        raise SystemExit(3)
                    if kind == 'keyboard_interrupt':
                        raise KeyboardInterrupt()

            def beh(code, glb, i=i, body=body):
                if sides[i] == 'await':
                    async def coro():
                        await asyncio.sleep(0)
                        body()
                    return coro()
                # raise from a frame that carries the doctest file name
                g = {'__body__': body}
                real_exec = exec
                real_exec(compile('__body__()', code.filename or '<x>', 'exec'), g)
                return None
            E.behaviour[i] = beh
        E.compile_hook = lambda idx, mode, filename: hrun.Code(idx, mode, coroutine=(sides[idx] == 'await'), filename=filename)
        dt = m['doctest_example'].DocTest('', None, 'f', 0, 1, mode=mode)
        dt.config['colored'] = False
        dt._parts = parts
        if kind == 'import_failure':
            def bad_import():
                raise ImportError('no module')
            dt._import_module = bad_import
            dt.module = None
        # ---- the observation
        out0, err0 = sys.stdout, sys.stderr
        path0 = list(sys.path)
        filt0 = list(warnings.filters)
        show0 = warnings.showwarning
        outcome = None
        try:
            dt.run(verbose=0, on_error='raise' if onraise else 'return')
            outcome = 'returned'
        except BaseException as e:
            if type(e).__module__.startswith('sea.'):
                raise
            outcome = type(e).__name__
        props = {}
        props['stdout_restored'] = z3.BoolVal(sys.stdout is out0)
        props['stderr_restored'] = z3.BoolVal(sys.stderr is err0)
        sys.stdout, sys.stderr = out0, err0
        props['sys_path_unchanged'] = z3.BoolVal(list(sys.path) == path0)
        props['warning_filters_restored'] = z3.BoolVal(list(warnings.filters) == filt0 and warnings.showwarning is show0)
        warnings.filters[:] = filt0
        try:
            asyncio.get_running_loop()
            props['no_event_loop_left'] = z3.BoolVal(False)
        except RuntimeError:
            pass
        # attribution of captured output
        ok = True
        for i, text in wrote.items():
            if closed_capture:
                break              # the capture stream itself was closed: what is logged afterwards is not specified
            if dt.logged_stdout.get(i) != text and not (i == f and kind in ('system_exit', 'keyboard_interrupt')):
                ok = False
        props['logged_stdout_is_what_each_part_wrote'] = z3.BoolVal(ok)
        if kind in ('system_exit', 'keyboard_interrupt') and f in wrote and not closed_capture:
            props['base_exception_propagates'] = z3.BoolVal(outcome in ('SystemExit', 'KeyboardInterrupt'))
        # a doctest run next receives nothing of it
        E.behaviour[50] = lambda code, glb: sys.stdout.write('B\n')
        E.compile_hook = None
        b = m['doctest_example'].DocTest('', None, 'g', 0, 1, mode='native')
        b._parts = [P(['y = 1 #50#'], want_lines=['B'], line_offset=0, orig_lines=['>>> y = 1 #50#'], directives=[])]
        sys.stdout = out0
        sb = b.run(verbose=0, on_error='return')
        props['next_doctest_unaffected'] = z3.BoolVal(sb['passed'] is True and b.logged_stdout.get(0) == 'B\n' and sys.stdout is out0)
        sys.stdout = out0
        if outcome == 'SystemExit':
            ex.witness('system_exit_propagates', True)
        if sides[K - 1] in ('replace_stdout', 'print_then_replace') and (K - 1) in wrote:
            ex.witness('stdout_replaced_by_last_part', True)
        if kind == 'expected_exception' and sides[f] == 'print' and f in wrote:
            ex.witness('expected_exception_after_print', True)
        if any(s == 'alter_filters' and i in wrote for i, s in enumerate(sides)):
            ex.witness('filters_altered', True)
            if mode == 'pytest':
                ex.witness('filters_altered_in_pytest_mode', True)
        if any(s == 'await' and i in wrote for i, s in enumerate(sides)):
            ex.witness('awaits', True)
        return props

    def describe(self, model):
        def n(v):
            return model.eval(v, model_completion=True).as_long()
        return {'harness': 'run', 'terminating_part': n(self.f), 'kind': KINDS[n(self.kind)], 'sides': [SIDE[n(v)] for v in self.side],
                'on_error': 'raise' if z3.is_true(model.eval(self.onraise, model_completion=True)) else 'return',
                'mode': 'pytest' if z3.is_true(model.eval(self.pytest_mode, model_completion=True)) else 'native'}


class ImportRestores(Harness):
    witnesses = ('import_raises', 'module_inserts_before', 'module_appends', 'import_exits', 'directory_already_on_sys_path')

    def __init__(self, job):
        from .common import instrumented
        instrumented()
        from xdoctest.utils import util_import
        self.ui = util_import
        self.index = z3.Int('index')
        self.edit = z3.Int('module_path_edit')      # 0 none, 1 append, 2+p insert at p
        self.raises = z3.Int('import_outcome')      # 0 returns, 1 ImportError, 2 SystemExit, 3 KeyboardInterrupt
        self.present = z3.Int('dir_already_on_sys_path_at')   # -1 absent, p >= 0: the module's directory is already entry p of sys.path
        self.base = [self.index >= -2, self.index <= 2, self.edit >= 0, self.edit <= 5, self.raises >= 0, self.raises <= 3, self.present >= -1, self.present <= 2]
        self.stubs = ['util_import.import_module_from_name -> returns a module / raises ImportError, optionally after adding an entry to sys.path',
                      'split_modpath / modpath_to_modname -> fixed answers for a path that does not exist on disk']

    def run(self, ex):
        import sys
        import types
        from sea.core import SymBool, SymInt
        ui = self.ui
        index = int(SymInt(self.index))
        edit = int(SymInt(self.edit))
        raises = int(SymInt(self.raises))
        present = int(SymInt(self.present))
        mod = types.ModuleType('xdv_c12_mod')

        def fake_import(modname):
            if edit == 1:
                sys.path.append('/xdv/module/own/entry')
            elif edit >= 2:
                sys.path.insert(min(edit - 2, len(sys.path)), '/xdv/module/own/entry')
            if raises == 1:
                raise ImportError('cannot import ' + modname)
            if raises == 2:
                raise SystemExit(2)
            if raises == 3:
                raise KeyboardInterrupt()
            return mod
        ui.import_module_from_name = fake_import
        ui.split_modpath = lambda modpath, check=True: ('/xdv/tmp/dir', 'xdv_c12_mod.py')
        ui.modpath_to_modname = lambda modpath, *a, **k: 'xdv_c12_mod'
        saved = list(sys.path)
        if present >= 0:
            sys.path.insert(present, '/xdv/tmp/dir')
        before = list(sys.path)
        outcome = None
        try:
            r = ui._custom_import_modpath('/xdv/tmp/dir/xdv_c12_mod.py', index=index)
            outcome = 'returned' if r is mod else 'wrong module'
        except BaseException as e:
            if type(e).__module__.startswith('sea.'):
                raise
            outcome = type(e).__name__
        after = list(sys.path)
        own = ['/xdv/module/own/entry'] if edit else []
        props = {'sys_path_keeps_its_entries': z3.BoolVal(sorted(after) == sorted(before + own) and (present >= 0 or '/xdv/tmp/dir' not in after))}
        if not edit:
            props['sys_path_identical'] = z3.BoolVal(after == before)
        if present >= 0 and not edit:
            # an entry that was there before stays where it was (an equal entry further back must not be the one removed);
            # when the module ALSO edits sys.path the documented recovery heuristic may remove the earlier equal entry: the
            # entries are kept (asserted above), their order is then not claimed
            rest = [e for e in after if e != '/xdv/module/own/entry']
            props['entry_present_before_keeps_its_place'] = z3.BoolVal(rest == before)
        props['result'] = z3.BoolVal(outcome == ['returned', 'RuntimeError', 'SystemExit', 'KeyboardInterrupt'][raises])
        sys.path[:] = saved
        if raises:
            ex.witness('import_raises', True)
        if present >= 0 and index != 0:
            ex.witness('directory_already_on_sys_path', True)
        if raises >= 2:
            ex.witness('import_exits', True)
        if edit >= 2:
            ex.witness('module_inserts_before', True)
        if edit == 1:
            ex.witness('module_appends', True)
        return props

    def describe(self, model):
        def n(v):
            return model.eval(v, model_completion=True).as_long()
        return {'harness': 'imp', 'index': n(self.index), 'edit': n(self.edit), 'raises': n(self.raises), 'present': n(self.present)}


def build(job):
    return RunRestores(job) if job['harness'] == 'run' else ImportRestores(job)


# ---------------------------------------------------------------- replay with real code

def replay(job, cex):
    import io
    import os
    import sys
    import warnings
    import shutil
    import tempfile
    if cex['harness'] == 'imp':
        from xdoctest import utils
        d = tempfile.mkdtemp(prefix='xdv-c12-')
        try:
            edit = cex['edit']
            body = 'import sys\n'
            if edit == 1:
                body += "sys.path.append('/xdv/module/own/entry')\n"
            elif edit >= 2:
                body += "sys.path.insert(min(%d, len(sys.path)), '/xdv/module/own/entry')\n" % (edit - 2)
            if cex['raises']:
                body += ["", "raise ImportError('broken module')\n", "raise SystemExit(2)\n", "raise KeyboardInterrupt()\n"][int(cex['raises'])]
            path = os.path.join(d, 'xdv_c12_replay_mod.py')
            with open(path, 'w') as f:
                f.write(body)
            saved = list(sys.path)
            present = cex.get('present', -1)
            if present >= 0:
                sys.path.insert(present, d)
            before = list(sys.path)
            try:
                utils.import_module_from_path(path, index=cex['index'])
                outcome = 'returned'
            except BaseException as e:
                outcome = type(e).__name__
            after = list(sys.path)
            own = ['/xdv/module/own/entry'] if edit else []
            bad = sorted(after) != sorted(before + own) or (present < 0 and d in after)
            if present >= 0 and not edit and [e for e in after if e != '/xdv/module/own/entry'] != before:
                bad = True
            sys.path[:] = saved
            sys.modules.pop('xdv_c12_replay_mod', None)
            return {'reproduced': bad, 'detail': 'import_module_from_path(index=%d), module body %r: %s; sys.path before %r after %r' % (
                cex['index'], body, outcome, before[-3:], after[-4:]), 'signature': 'C12:import:sys.path'}
        finally:
            shutil.rmtree(d, ignore_errors=True)
    from xdoctest import core
    kind, f, sides = cex['kind'], cex['terminating_part'], cex['sides']
    blocks = []
    for i, side in enumerate(sides):
        lines = []
        if kind == 'all_skipped' and i == 0:
            lines.append('>>> # xdoctest: +SKIP')
        stmt = {'print': "print('P%d')" % i, 'nothing': 'x = %d' % i,
                'replace_stdout': "import sys, io; sys.stdout = io.StringIO()",
                'replace_and_close_stdout': "import sys, io; sys.stdout = io.StringIO(); sys.stdout.close()",
                'alter_filters': "import warnings; warnings.simplefilter('error')",
                'await': "import asyncio; await asyncio.sleep(0)",
                'print_then_replace': "print('P%d'); import sys, io; sys.stdout = io.StringIO()" % i,
                'close_captured_stdout': "import sys; sys.stdout.close()"}[side]
        lines.append('>>> ' + stmt)
        if i == f:
            term = {'exception': "raise KeyError('boom')", 'expected_exception': "raise KeyError('boom')",
                    'system_exit': 'raise SystemExit(3)', 'keyboard_interrupt': 'raise KeyboardInterrupt()',
                    'exit_test': 'import xdoctest; xdoctest.ExitTestException and (_ for _ in ()).throw(xdoctest.ExitTestException())',
                    'mismatch': "print('something')"}.get(kind)
            if term:
                lines.append('>>> ' + term)
            if kind == 'mismatch':
                lines.append('never printed')
            if kind == 'expected_exception':
                lines += ['Traceback (most recent call last):', "KeyError: 'boom'"]
        blocks.append('\n'.join(lines))
    doc = '\n\n'.join(blocks) + '\n'
    dt = list(core.parse_docstr_examples(doc))[0]
    dt.mode = cex.get('mode', 'native')
    if kind == 'import_failure':
        def bad_import():
            raise ImportError('no module')
        dt._import_module = bad_import
        dt.module = None
    out0, err0, path0, filt0 = sys.stdout, sys.stderr, list(sys.path), list(warnings.filters)
    try:
        dt.run(verbose=0, on_error=cex['on_error'])
        outcome = 'returned'
    except BaseException as e:
        outcome = type(e).__name__
    bad = []
    if sys.stdout is not out0:
        bad.append('stdout')
    if sys.stderr is not err0:
        bad.append('stderr')
    if list(sys.path) != path0:
        bad.append('sys.path')
    if list(warnings.filters) != filt0:
        bad.append('warnings.filters')
    sys.stdout, sys.stderr = out0, err0
    warnings.filters[:] = filt0
    # attribution: everything the executed statements printed is logged, once, in order
    if kind not in ('system_exit', 'keyboard_interrupt', 'import_failure') and 'close_captured_stdout' not in sides:
        exp = ''
        for i, side in enumerate(sides):
            if kind == 'all_skipped':
                break
            if side in ('print', 'print_then_replace'):
                exp += 'P%d\n' % i
            if i == f and kind == 'mismatch' and side not in ('replace_stdout', 'replace_and_close_stdout', 'print_then_replace'):
                exp += 'something\n'
            if i == f and kind in ('mismatch', 'exception', 'exit_test'):
                break
        got = ''.join(v for v in dt.logged_stdout.values() if v)
        if got != exp:
            bad.append('logged_stdout')
    return {'reproduced': bool(bad), 'detail': 'docstring %r (%s, on_error=%s) -> %s; not restored / wrong: %s; logged %r' % (doc, kind, cex['on_error'], outcome, bad, dict(dt.logged_stdout)),
            'signature': 'C12:run:' + ','.join(bad)}
