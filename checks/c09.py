"""C09 - every failure is recorded and rendered; one bad doctest never aborts the run.

The real DocTest.run (whole try/except ladder), _post_run (incl. the
verbose >= 2 rendering), failed_line_offset / failed_lineno, repr_failure with
_alter_traceback_linenos, format_parts / format_part, GotWantException
rendering and runner._run_examples are executed under the explorer on a
SYMBOLIC FAULT SCHEDULE: which part fails, how (ten failure kinds), at which
line, through which frames (a helper defined at a symbolic line of an earlier
part, a frame outside the doctest), how long every part is, the verbosity and
on_error.  The data of a path are concrete; what the solver enumerates is the
schedule (fault-point exploration driven by the solver).
"""
import z3
from .common import Harness, zbool
from . import hrun

PROPERTY = 'C09'
LEVEL = 'fault_enumeration'      # the solver enumerates a schedule / skeleton; the data of a path are concrete (DESIGN.md section 4)
KINDS = ['gotwant', 'exc_top', 'exc_helper', 'exc_external', 'compile_error', 'repr_raises', 'repr_raises_stdout',
         'import_error', 'bad_directive', 'exc_with_want_under_ignore_want']
BOUNDS = {
    'quick': 'k=2 parts of 1..3 lines, failing part and line symbolic, 10 failure kinds, helper line 1..4, verbosity 0..3; runner: 2 doctests',
    'thorough': 'k=3 parts of 1..4 lines, helper line 1..6; runner: 3 doctests',
}
OUTSIDE = 'pytest INTERNALERROR rendering (pytest session machinery); real tracebacks of real exec (the frames are fabricated with the real file-name convention); coloured output'
ASSUMPTIONS = ['doctest frames are recognised by the part file name <doctest:NODE> (the real convention); fabricated frames carry it',
               'the text of a part is not executed: compile/exec/eval are harness stubs']


def jobs(tier):
    q = tier == 'quick'
    return [{'ob': 'failure_recorded_and_rendered', 'harness': 'one', 'k': 2 if q else 3, 'maxlines': 3 if q else 4,
             'maxhelper': 4 if q else 6, 'splits': [2, 4, 6, 8], 'query_timeout_s': 60,
             'bounds': BOUNDS[tier]},
            {'ob': 'runner_continues', 'harness': 'runner', 'n': 2 if q else 3, 'splits': [2, 4, 6], 'query_timeout_s': 60,
             'bounds': '%d doctests, each passing or failing in one of the ten ways' % (2 if q else 3)}]


class Ext(Exception):
    pass


def _external_raise(exc):
    raise exc


class Schedule:
    """symbolic failure schedule of ONE doctest (shared by both harnesses)"""

    def __init__(self, tag, K, maxlines, maxhelper):
        self.tag, self.K, self.maxlines, self.maxhelper = tag, K, maxlines, maxhelper
        self.nl = [z3.Int('%snlines%d' % (tag, i)) for i in range(K)]
        self.fails = z3.Bool(tag + 'fails')
        self.f = z3.Int(tag + 'failing_part')
        self.kind = z3.Int(tag + 'kind')
        self.line = z3.Int(tag + 'failing_line')
        self.hpart = z3.Int(tag + 'helper_part')
        self.hline = z3.Int(tag + 'helper_line')
        self.base = [self.f >= 0, self.f < K, self.kind >= 0, self.kind < len(KINDS),
                     self.hline >= 1, self.hline <= maxhelper, self.hpart >= 0, self.hpart <= self.f]
        for i in range(K):
            self.base += [self.nl[i] >= 1, self.nl[i] <= maxlines]
        self.base += [self.line >= 1] + [z3.Implies(self.f == i, self.line <= self.nl[i]) for i in range(K)]

    def concretise(self):
        from sea.core import SymBool, SymInt
        d = {'fails': bool(SymBool(self.fails))}
        d['nl'] = [int(SymInt(x)) for x in self.nl]
        if d['fails']:
            d['f'] = int(SymInt(self.f))
            d['kind'] = KINDS[int(SymInt(self.kind))]
            d['line'] = int(SymInt(self.line)) if d['kind'] in ('exc_top', 'exc_helper', 'exc_external', 'compile_error', 'exc_with_want_under_ignore_want') else 1
            if d['kind'] == 'exc_helper':
                d['hline'] = int(SymInt(self.hline))
        return d

    def describe(self, model):
        def n(v):
            return model.eval(v, model_completion=True).as_long()
        d = {'fails': z3.is_true(model.eval(self.fails, model_completion=True)), 'nl': [n(x) for x in self.nl]}
        if d['fails']:
            d.update(f=n(self.f), kind=KINDS[n(self.kind)], line=n(self.line), hline=n(self.hline))
        return d


def build_doctest(m, sched, d, idx_base=0, lineno=10, name='f'):
    """real DocTest whose parts follow the concrete schedule d; returns
    (dt, parts, expected) and installs the behaviours in hrun.ENV"""
    E = hrun.ENV
    D = m['directive']
    K = sched.K
    parts = []
    off = 0
    exp = {'type': None, 'offset': None}
    dt = m['doctest_example'].DocTest('', None, name, 0, lineno, mode='native')
    dt.config['colored'] = False
    for i in range(K):
        idx = idx_base + i
        n = d['nl'][i]
        fail_here = d['fails'] and d['f'] == i
        kind = d['kind'] if fail_here else None
        exec_lines = ['stmt_%d_%d()' % (idx, l) for l in range(1, n + 1)]
        exec_lines[-1] += ' #%d#' % idx
        dirs = []
        want = None
        if kind in ('gotwant', 'repr_raises', 'repr_raises_stdout', 'exc_with_want_under_ignore_want'):
            want = ['expected_%d' % idx]
        if kind == 'exc_with_want_under_ignore_want':
            dirs = [D.Directive('IGNORE_WANT', True, [], True)]
        if kind == 'bad_directive':
            dirs = [D.Directive('REQUIRES', True, ['badflag:x'], False)]
        p = m['doctest_part'].DoctestPart(exec_lines, want_lines=want, line_offset=off,
                                          orig_lines=['>>> ' + x for x in exec_lines], directives=dirs)
        if kind in ('repr_raises', 'repr_raises_stdout'):
            p.compile_mode = 'eval'
        parts.append(p)
        if fail_here:
            if kind == 'gotwant':
                exp = {'type': 'GotWantException', 'offset': off + n}
            elif kind in ('exc_top', 'exc_helper', 'exc_external', 'exc_with_want_under_ignore_want'):
                exp = {'type': 'HarnessExc' if kind != 'exc_external' else 'Ext', 'offset': off + d['line'] - 1}
            elif kind == 'compile_error':
                exp = {'type': 'SyntaxError', 'offset': off + d['line'] - 1}
            elif kind in ('repr_raises', 'repr_raises_stdout'):
                exp = {'type': 'ExtractGotReprException', 'offset': off + n - 1}
            elif kind == 'bad_directive':
                exp = {'type': 'Exception', 'offset': off}
            elif kind == 'import_error':
                exp = {'type': 'ImportError', 'offset': 0}
            exp['marker'] = None if kind == 'import_error' else 'stmt_%d_%d' % (idx, (exp['offset'] - off + 1) if kind != 'gotwant' else n)

        def beh(code, glb, i=i, idx=idx, kind=kind, n=n):
            real_exec = exec
            if kind == 'gotwant':
                E.cap.write('something else')
            elif kind in ('exc_top', 'exc_with_want_under_ignore_want'):
                hrun.raise_in_doctest_frame(code, hrun.HarnessExc(idx), lineno=d['line'])
            elif kind == 'exc_helper':
                g = {'__exc__': hrun.HarnessExc(idx)}
                real_exec(compile('\n' * (d['hline'] - 1) + 'def helper():\n    raise __exc__', code.filename, 'exec'), g)
                real_exec(compile('\n' * (d['line'] - 1) + 'helper()', code.filename, 'exec'), g)
            elif kind == 'exc_external':
                g = {'ext': _external_raise, '__exc__': Ext('external')}
                real_exec(compile('\n' * (d['line'] - 1) + 'ext(__exc__)', code.filename, 'exec'), g)
            elif kind == 'repr_raises':
                return hrun.Value('r', repr_raises=True)
            elif kind == 'repr_raises_stdout':
                E.cap.write('printed')
                return hrun.Value('r', repr_raises=True)
            return None
        E.behaviour[idx] = beh
    # part offsets accumulate like the parser's running line counter
        off += n + (1 if want else 0)
    dt._parts = parts
    if d['fails'] and d['kind'] == 'import_error':
        def bad_import():
            raise ImportError('cannot import the module under test')
        dt._import_module = bad_import
        dt.module = None
    if d['fails'] and d['kind'] == 'compile_error':
        fidx = idx_base + d['f']
        prev = E.compile_hook

        def hook(idx, mode, filename, fidx=fidx, prev=prev):
            if idx == fidx:
                raise SyntaxError("'return' outside function", (filename, d['line'], 1, 'return 1'))
            return prev(idx, mode, filename) if prev else None
        E.compile_hook = hook
    return dt, parts, exp


def check_rendering(dt, exp, parts, d):
    """-> dict of python bools: the obligations on a failed doctest"""
    out = {}
    try:
        lines = dt.repr_failure()
        out['repr_failure_raises_nothing'] = True
    except Exception as e:
        out['repr_failure_raises_nothing'] = False
        out['_error'] = '%s: %s' % (type(e).__name__, e)
        return out
    out['report_is_list_of_str'] = isinstance(lines, list) and all(isinstance(x, str) for x in lines)
    text = '\n'.join(str(x) for x in lines)
    out['names_exception_type'] = ('REASON: ' + exp['type']) in text
    out['shows_failing_source_line'] = True if exp['marker'] is None else (exp['marker'] in text)
    off = dt.failed_line_offset()
    out['failing_line_number'] = (off == exp['offset']) and dt.failed_lineno() == dt.lineno + exp['offset']
    try:
        lines2 = dt.repr_failure(with_tb=False)
        out['repr_failure_without_tb'] = isinstance(lines2, list)
    except Exception as e:
        out['repr_failure_without_tb'] = False
    return out


class One(Harness):
    witnesses = ('helper_line_beyond_failing_part', 'failure_in_last_part', 'verbose_rendering', 'passes')

    def __init__(self, job):
        self.m = hrun.install()
        self.job = job
        self.S = Schedule('', job['k'], job['maxlines'], job['maxhelper'])
        self.verbose = z3.Int('verbose')
        self.base = self.S.base + [self.verbose >= 0, self.verbose <= 3]
        self.printed = []
        self.m['ins'].RT.STUBS['print'] = lambda *a, **k: self.printed.append(a)
        self.stubs = hrun.STUB_NOTES + ['print -> collected (verbose output)', '_import_module -> raises ImportError (kind import_error)',
                                        'compile -> raises SyntaxError with a symbolic line (kind compile_error)']

    def run(self, ex):
        from sea.core import SymInt
        m = self.m
        E = hrun.ENV
        E.reset()
        d = self.S.concretise()
        v = int(SymInt(self.verbose))
        dt, parts, exp = build_doctest(m, self.S, d)
        props = {}
        try:
            summ = dt.run(verbose=v, on_error='return')
        except Exception as e:
            props['run_returns_a_summary'] = z3.BoolVal(False)
            self.last_error = '%s: %s' % (type(e).__name__, e)
            return props
        if not d['fails']:
            props['passing_doctest_passes'] = z3.BoolVal(summ['passed'] is True and summ['failed'] is False and dt.repr_failure() == [])
            ex.witness('passes', True)
            return props
        props['marked_failed'] = z3.BoolVal(summ['failed'] is True and summ['passed'] is False and summ['exc_info'] is not None)
        if summ['exc_info'] is None:
            return props
        props['records_the_exception_type'] = z3.BoolVal(type(summ['exc_info'][1]).__name__ == exp['type'])
        r = check_rendering(dt, exp, parts, d)
        self.last_error = r.pop('_error', None)
        for k, val in r.items():
            props[k] = z3.BoolVal(bool(val))
        if d['kind'] == 'exc_helper' and d['hline'] > d['nl'][d['f']]:
            ex.witness('helper_line_beyond_failing_part', True)
        if d['f'] == self.S.K - 1:
            ex.witness('failure_in_last_part', True)
        if v >= 2:
            ex.witness('verbose_rendering', True)
        return props

    def describe(self, model):
        d = self.S.describe(model)
        d['verbose'] = model.eval(self.verbose, model_completion=True).as_long()
        d['harness'] = 'one'
        return d


class Runner(Harness):
    witnesses = ('first_fails_second_runs', 'all_fail', 'none_fail')

    def __init__(self, job):
        self.m = hrun.install()
        from xdoctest import runner
        self.runner = runner
        self.job = job
        self.N = job['n']
        self.S = [Schedule('d%d_' % j, 1, 2, 3) for j in range(self.N)]
        self.base = sum([s.base for s in self.S], [])
        self.m['ins'].RT.STUBS['print'] = lambda *a, **k: None
        self.stubs = hrun.STUB_NOTES + ['print -> dropped']

    def run(self, ex):
        m = self.m
        E = hrun.ENV
        E.reset()
        ds = [s.concretise() for s in self.S]
        dts = []
        for j, (s, d) in enumerate(zip(self.S, ds)):
            dt, parts, exp = build_doctest(m, s, d, idx_base=10 * j, name='f%d' % j)
            dts.append(dt)
        logs = []
        props = {}
        try:
            rs = self.runner._run_examples(dts, 0, config={'colored': False}, _log=lambda *a: logs.append(a))
        except Exception as e:
            self.last_error = '%s: %s' % (type(e).__name__, e)
            return {'runner_survives_every_failure': z3.BoolVal(False)}
        ran = [t // 10 for t in E.trace]
        want_ran = [j for j, d in enumerate(ds) if not (d['fails'] and d['kind'] in ('import_error', 'compile_error', 'bad_directive'))]
        props['every_doctest_ran'] = z3.BoolVal(sorted(set(ran)) == want_ran and all(dt.exc_info is not None or not d['fails'] for dt, d in zip(dts, ds)))
        failed_exp = [dts[j] for j, d in enumerate(ds) if d['fails']]
        props['failed_list_exact'] = z3.BoolVal([id(x) for x in rs['failed']] == [id(x) for x in failed_exp])
        props['tallies'] = z3.BoolVal(rs['n_total'] == self.N and rs['n_failed'] == len(failed_exp)
                                      and rs['n_passed'] == self.N - len(failed_exp) and rs['n_skipped'] == 0)
        nf = len(failed_exp)
        if self.N >= 2 and ds[0]['fails'] and not ds[1]['fails']:
            ex.witness('first_fails_second_runs', True)
        if nf == self.N:
            ex.witness('all_fail', True)
        if nf == 0:
            ex.witness('none_fail', True)
        return props

    def describe(self, model):
        return {'harness': 'runner', 'doctests': [s.describe(model) for s in self.S]}


def build(job):
    return One(job) if job['harness'] == 'one' else Runner(job)


# ---------------------------------------------------------------- replay: real docstrings through the public API

def _doc_for(d, K, modname_ok=True):
    """a real docstring realising schedule d (real python code this time);
    the schedule's parts are separated by blank lines, so each one is a
    separately compiled part with exactly nl[i] source lines"""
    blocks = []
    marker = None
    for i in range(K):
        n = d['nl'][i]
        fail_here = d['fails'] and d['f'] == i
        kind = d['kind'] if fail_here else None
        body = ['x%d_%d = %d' % (i, l, l) for l in range(1, n + 1)]
        want = None
        if kind == 'gotwant':
            body[-1] = "print('something else')"
            want = 'expected'
            marker = body[-1]
        elif kind == 'exc_top':
            body[d['line'] - 1] = "raise KeyError('boom%d')" % i
            marker = body[d['line'] - 1]
        elif kind == 'exc_with_want_under_ignore_want':
            body = ["raise KeyError('boom%d')  # xdoctest: +IGNORE_WANT" % i]
            want = 'expected'
            marker = body[0]
        elif kind == 'exc_external':
            body[d['line'] - 1] = "int('not a number %d')" % i
            marker = body[d['line'] - 1]
        elif kind == 'compile_error':
            body[d['line'] - 1] = 'return %d' % i
            marker = body[d['line'] - 1]
        elif kind in ('repr_raises', 'repr_raises_stdout'):
            body[-1] = 'BadRepr(%r)' % (kind == 'repr_raises_stdout')
            want = 'expected'
            marker = body[-1]
        elif kind == 'bad_directive':
            body[0] = body[0] + '  # xdoctest: +REQUIRES(badflag:x)'
            marker = body[0]
        elif kind == 'exc_helper':
            body[d['line'] - 1] = 'helper()'
            marker = 'helper()'
        lines = ['>>> ' + b for b in body]
        if want:
            lines.append(want)
        blocks.append('\n'.join(lines))
    return blocks, marker


def replay(job, cex):
    import io
    import contextlib
    from xdoctest import core, doctest_example, doctest_part
    if cex.get('harness') == 'runner':
        return {'reproduced': False, 'abstract': True, 'detail': 'runner schedule: replay the single-doctest obligation instead'}
    d = cex
    K = len(d['nl'])
    if not d['fails']:
        return {'reproduced': False, 'detail': 'passing schedule'}
    kind = d['kind']
    blocks, marker = _doc_for(d, K)
    if kind == 'exc_helper':
        # the helper is DEFINED at line hline of an earlier, separately compiled
        # part (made long enough with padding statements)
        pre = ['>>> pad%d = %d' % (l, l) for l in range(1, d['hline'])] + ['>>> def helper():', '...     raise KeyError("in helper")']
        blocks.insert(0, '\n'.join(pre))
    doc = '\n\n'.join(blocks) + '\n'
    dt = list(core.parse_docstr_examples(doc, callname='f', lineno=10))[0]
    dt.mode = 'native'
    dt.config['colored'] = False

    class BadRepr:
        def __init__(self, noisy):
            if noisy:
                print('printed')

        def __repr__(self):
            raise RuntimeError('no repr')
    dt.global_namespace['BadRepr'] = BadRepr
    if kind == 'import_error':
        def bad_import():
            raise ImportError('cannot import the module under test')
        dt._import_module = bad_import
        dt.module = None
    buf = io.StringIO()
    bad = []
    detail = ''
    try:
        with contextlib.redirect_stdout(buf):
            summ = dt.run(verbose=d.get('verbose', 0), on_error='return')
    except Exception as e:
        return {'reproduced': True, 'detail': 'run(on_error="return") raised %s: %s for docstring %r' % (type(e).__name__, e, doc),
                'signature': 'C09:run-raises:%s:%s' % (kind, type(e).__name__)}
    if not summ['failed']:
        bad.append('not-marked-failed')
    else:
        try:
            text = '\n'.join(dt.repr_failure())
            if 'REASON: ' + type(summ['exc_info'][1]).__name__ not in text:
                bad.append('reason-missing')
            if marker and marker not in text:
                bad.append('source-line-missing')
            if marker and kind not in ('gotwant', 'repr_raises', 'repr_raises_stdout'):
                # the reported line (relative to the docstring) must hold the failing statement
                off = dt.failed_line_offset()
                doclines = doc.splitlines()
                if not (0 <= off < len(doclines)) or marker not in doclines[off]:
                    bad.append('wrong-line')
        except Exception as e:
            bad.append('repr_failure-raises-' + type(e).__name__)
            detail = '%s: %s' % (type(e).__name__, e)
    return {'reproduced': bool(bad), 'detail': 'docstring %r kind=%s: %s %s' % (doc, kind, bad, detail),
            'signature': 'C09:%s:%s' % (kind, ','.join(bad))}
