"""H-RUN: drive the REAL DocTest.run loop on symbolic parts.

Environment stubs (all part of the claim, listed in the evidence):
  compile        -> token object carrying the part index (or raises, per part)
  exec / eval    -> appends the part index to a trace, writes the part's
                    symbolic output into the capture, returns a value object
                    with symbolic repr, or raises (per part behaviour)
  CaptureStdout  -> symbolic capture with the same protocol
  checker.normalize/_check_match -> uninterpreted relation M (optional)
"""
import z3
from .common import instrumented, zbool


class Value:
    """result of an eval part: repr is a symbolic string (or raises)"""

    def __init__(self, r, repr_raises=False, s=None):
        self.r = r
        self.s = s if s is not None else r
        self.repr_raises = repr_raises

    def sea_str(self):
        return self.s

    def sea_repr(self):
        if self.repr_raises:
            raise RuntimeError('repr failed')
        return self.r

    def __repr__(self):
        raise AssertionError('native repr of a harness value')


class Code:
    co_flags = 0

    def __init__(self, idx, mode, coroutine=False, filename=None):
        self.idx = idx
        self.mode = mode
        self.filename = filename
        if coroutine:
            import inspect
            self.co_flags = inspect.CO_COROUTINE


class SymCapture:
    """same protocol as utils.CaptureStdout: text is None before the first
    `with`, inside/after a with-block it is what was written in that block."""
    instances = []

    def __init__(self, suppress=True, enabled=True, **kw):
        from sea.symstr import SymStr
        self.enabled = enabled
        self.suppress = suppress
        self.text = None
        self.cur = None
        self.started = False
        self.parts = []
        SymCapture.instances.append(self)

    def __enter__(self):
        from sea.symstr import SymStr
        if self.enabled:
            self.cur = SymStr.of('')
            self.text = ''
            self.started = True
            ENV.cap = self
        return self

    def write(self, s):
        from sea.symstr import SymStr
        cur = self.cur
        if isinstance(cur, SymStr) and cur.const() is not None and isinstance(s, str):
            self.cur = SymStr.of(cur.const() + s)
        else:
            self.cur = cur + s

    def __exit__(self, t, v, tb):
        if self.enabled:
            c = self.cur.const() if hasattr(self.cur, 'const') else self.cur
            if c is not None:
                self.cur = c          # plain python text when nothing symbolic was written
            self.text = self.cur
            self.parts.append(self.cur)
            self.started = False
            ENV.cap = None
        return False


class Env:
    """per-path harness state"""

    def __init__(self):
        self.reset()

    def reset(self):
        self.trace = []
        self.globs = []
        self.cap = None
        self.behaviour = {}   # idx -> callable(code, glb) executed by exec/eval stubs
        self.compile_hook = None
        self.asyncio_runs = []


ENV = Env()


def stub_compile(source, mode=None, filename=None, flags=0, dont_inherit=False, **kw):
    src = source if isinstance(source, str) else str(source)
    if '#' not in src or not src.rstrip().endswith('#'):
        return compile(source, filename or '<x>', mode, flags=flags, dont_inherit=dont_inherit)
    idx = int(src.rstrip().split('#')[-2])
    if ENV.compile_hook is not None:
        r = ENV.compile_hook(idx, mode, filename)
        if r is not None:
            return r
    return Code(idx, mode, filename=filename)


def stub_exec(code, glb=None, *a):
    if not isinstance(code, Code):
        return exec(code, glb, *a)
    ENV.trace.append(code.idx)
    ENV.globs.append(glb)
    b = ENV.behaviour.get(code.idx)
    if b is not None:
        return b(code, glb)
    return None


class HarnessExc(Exception):
    """exception raised by a stubbed part; `excline` is what
    traceback.format_exception_only(...)[-1] renders for it (symbolic)"""

    def __init__(self, idx, excline=None):
        Exception.__init__(self, 'harness exception of part %d' % idx)
        self.idx = idx
        self.excline = excline


def raise_in_doctest_frame(code, exc, lineno=1, via_helper_line=None):
    """raise `exc` from a frame whose file name is the doctest's part file name
    (as real doctest code would), at line `lineno` of the part"""
    src = '\n' * (lineno - 1) + 'raise __exc__'
    real_exec = exec
    real_exec(compile(src, code.filename or '<x>', 'exec'), {'__exc__': exc})


class TracebackShim:
    """`traceback` module as seen by doctest_example: format_exception_only of a
    harness exception is its symbolic `Type: message` line"""

    def __init__(self):
        import traceback as tb
        self._tb = tb

    def format_exception_only(self, etype, value=None, *a, **k):
        if isinstance(value, HarnessExc) and value.excline is not None:
            return [value.excline]
        return self._tb.format_exception_only(etype, value, *a, **k)

    def __getattr__(self, k):
        return getattr(self._tb, k)


_REAL = {}


def install(uf_match=None, real_capture=False):
    """instrument + install the environment stubs.  Returns the modules.
    real_capture: keep the REAL utils.CaptureStdout (C12 / C01 capture obligations)"""
    ins = instrumented()
    from xdoctest import doctest_example, doctest_part, checker, utils, directive, constants, exceptions
    _REAL.setdefault('CaptureStdout', utils.CaptureStdout)
    utils.CaptureStdout = _REAL['CaptureStdout'] if real_capture else SymCapture
    doctest_example.traceback = TracebackShim()
    ins.RT.STUBS.update(compile=stub_compile, exec=stub_exec, eval=stub_exec)
    return dict(doctest_example=doctest_example, doctest_part=doctest_part, checker=checker,
                utils=utils, directive=directive, constants=constants, exceptions=exceptions, ins=ins)


STUB_NOTES = [
    'compile -> token object with the part index (real source text of parts is not executed)',
    'exec/eval -> records the call (trace, globals identity), writes the part\'s symbolic output, returns a value with symbolic repr or raises, as chosen per part',
    'utils.CaptureStdout -> symbolic capture with the same with-block protocol (text = what the block wrote)',
]


class MatchUF:
    """uninterpreted got/want match relation replacing normalize+_check_match;
    the real shortcuts of check_output (`not want`, `got == want`) stay."""

    def __init__(self, gcap, wcap, name='M'):
        self.gcap, self.wcap = gcap, wcap
        sorts = ([z3.IntSort()] + [z3.BitVecSort(8)] * gcap) + ([z3.IntSort()] + [z3.BitVecSort(8)] * wcap) + [z3.BoolSort()]
        self.f = z3.Function(name, *sorts)

    def pack(self, s, cap):
        from sea.symstr import SymStr
        from sea.core import Unsupported
        s = SymStr.of(s)
        if s.cap > cap:
            # longer capacity than the UF arity: the extra characters must be padding
            from sea import core
            if core.ex().check(s.nz() > cap) != z3.unsat:
                raise Unsupported('match relation argument longer than %d' % cap)
        return [s.nz()] + [s.at(k) for k in range(cap)]

    def __call__(self, got, want):
        from sea.core import mk
        return mk(self.f(*(self.pack(got, self.gcap) + self.pack(want, self.wcap))))

    def z(self, got, want):
        return zbool(self(got, want))

    def install(self, checker):
        checker.normalize = lambda g, w, rs=None: (g, w)
        checker._check_match = lambda g, w, rs: self(g, w)


def cat(xs):
    from sea.symstr import SymStr
    out = SymStr.of('')
    for x in xs:
        out = out + x
    return out


def check_output_spec(M, got, want):
    """declarative meaning of checker.check_output for a non-empty want:
    raw equality or the (uninterpreted) match relation"""
    return z3.Or(zbool(got == want), M.z(got, want))
