"""C18 - displayed doctest source is faithful and re-parses to the same doctest.

faithful   the real DocTest.format_src / format_parts / DoctestPart.format_part
           on p parts whose source and want LINES ARE SYMBOLIC strings (over {a, space, tab, >, ., #},
           incl. trailing blanks): with colours and
           line numbers off the output's lines are exactly the parts'
           original lines + want lines, each once, in order, want lines
           present iff want=True.
           (Re-parsing that text re-parses the original lines: the parser is a
           function of the text, its partition property is C13.)
numbering  line numbers on: every displayed number is start + line_offset + i
           with start = 1 or DocTest.lineno (file-relative); the DocTest's
           starting line and the part sizes are symbolic (forked over boundary
           values around powers of ten).
"""
import z3
from .common import Harness, zbool, instrumented

PROPERTY = 'C18'
STARTS = [1, 7, 9, 10, 98, 100, 997, 9998]
BOUNDS = {'quick': 'faithful: 1 part x 1..2 source lines and 0..2 want lines of <=2 symbolic characters; numbering: 2 parts, start line from %d boundary values' % len(STARTS),
          'thorough': 'as quick (2 parts in faithful and 3 parts in numbering did not finish within 16 minutes on 8 cores and were withdrawn)'}
OUTSIDE = 'pygments colouring; partnos prefix; the re-parse itself (the parser is a function of the displayed text; its partition property is C13)'
ASSUMPTIONS = ['lines contain no line-break characters', "str.format of the two format strings used ('{count:{n_digits}d} {line}', blanks + '{line}') is modelled by a mini formatter (integer formatting itself is CPython's)"]


def jobs(tier):
    q = tier == 'quick'
    return [{'ob': 'faithful', 'harness': 'faith', 'p': 1, 'cap': 2, 'splits': [2, 4], 'query_timeout_s': 120 if q else 400,
             'bounds': '%d part(s), 1..2 source and 0..2 want lines of <=%d symbolic characters, option want symbolic' % (1, 2)},
            {'ob': 'numbering', 'harness': 'num', 'p': 2, 'splits': [3, 6, 9], 'query_timeout_s': 60,
             'bounds': '%d parts of 1..3 lines, start line in %r, doctest-relative and file-relative, requested by argument or configuration' % (2, STARTS)}]


def mini_format(fmt, *args, **kw):
    """str.format for symbolic arguments: literal text + fields; integer fields
    are formatted by CPython, string fields are concatenated"""
    import string
    from sea.symstr import SymStr
    out = SymStr.of('')
    auto = 0
    for lit, field, spec, conv in string.Formatter().parse(fmt):
        out = out + lit
        if field is None:
            continue
        if field == '':
            val = args[auto]
            auto += 1
        elif field.isdigit():
            val = args[int(field)]
        else:
            val = kw[field]
        if spec and '{' in spec:
            spec = spec.format(**{k: v for k, v in kw.items() if isinstance(v, int)})
        if isinstance(val, SymStr):
            if spec:
                raise AssertionError('format spec on symbolic text')
            out = out + val
        else:
            out = out + format(val, spec or '')
    return out


class Faithful(Harness):
    witnesses = ('trailing_blank_in_a_line', 'want_lines_shown')

    def __init__(self, job):
        ins = instrumented()
        from sea.symstr import SymStr
        from xdoctest import doctest_example, doctest_part
        self.de, self.dp = doctest_example, doctest_part
        ins.RT.STUBS['format'] = mini_format
        self.job = job
        P = self.P = job['p']
        self.base = []
        self.src, self.wnt = [], []
        self.nsrc = [z3.Int('n_source%d' % i) for i in range(P)]
        self.nwant = [z3.Int('n_want%d' % i) for i in range(P)]
        for i in range(P):
            ss, ww = [], []
            for j in range(2):
                s, c = SymStr.fresh('src_%d_%d' % (i, j), job['cap'], 'a >.\t#')
                self.base += c
                ss.append(s)
                w, c = SymStr.fresh('want_%d_%d' % (i, j), job['cap'], 'a >.\t#', minlen=1)
                self.base += c
                ww.append(w)
            self.src.append(ss)
            self.wnt.append(ww)
            self.base += [self.nsrc[i] >= 1, self.nsrc[i] <= 2, self.nwant[i] >= 0, self.nwant[i] <= 2]
        self.prefix = z3.Bool('prefix')
        self.want = z3.Bool('want')

    def run(self, ex):
        from sea.core import SymBool, SymInt
        from sea.symstr import SymStr
        parts = []
        exp_on, exp_off = [], []
        prefix = True          # the statement's setting: with prompts (prompt-free text is the dump's concern, C19)
        want = bool(SymBool(self.want))
        off = 0
        for i in range(self.P):
            ns, nw = int(SymInt(self.nsrc[i])), int(SymInt(self.nwant[i]))
            exec_lines = self.src[i][:ns]
            orig = ['>>> ' + l for l in exec_lines]
            wl = self.wnt[i][:nw]
            p = self.dp.DoctestPart(list(exec_lines), want_lines=list(wl) if wl else None, line_offset=off, orig_lines=list(orig), directives=[])
            parts.append(p)
            off += ns + nw
            exp = (orig if prefix else list(exec_lines)) + (list(wl) if want else [])
            exp_on += exp
        dt = self.de.DocTest('', None, 'f', 0, 1, mode='native')
        dt._parts = parts
        text = dt.format_src(linenos=False, colored=False, want=want, prefix=prefix)
        text = SymStr.of(text)
        # the expected text, built independently of the formatter
        expected = SymStr.of('')
        for k, l in enumerate(exp_on):
            if k:
                expected = expected + '\n'
            expected = expected + l
        if any(True for _ in [0]):
            ex.witness('trailing_blank_in_a_line', z3.Or([z3.And(s.nz() > 0, s.at(s.nz() - 1) == 32) for ss in self.src for s in ss]))
        if want and any(p.want_lines for p in parts):
            ex.witness('want_lines_shown', True)
        return {'display_reproduces_every_line_once_in_order': zbool(text == expected)}

    def describe(self, model):
        def n(v):
            return model.eval(v, model_completion=True).as_long()
        parts = []
        for i in range(self.P):
            parts.append({'source': [s.concrete(model) for s in self.src[i][:n(self.nsrc[i])]], 'want': [w.concrete(model) for w in self.wnt[i][:n(self.nwant[i])]]})
        return {'harness': 'faith', 'parts': parts, 'prefix': z3.is_true(model.eval(self.prefix, model_completion=True)),
                'want': z3.is_true(model.eval(self.want, model_completion=True))}


class Numbering(Harness):
    witnesses = ('width_grows_inside_the_doctest', 'file_relative', 'want_hidden_gap', 'argument_overrides_config')

    def __init__(self, job):
        instrumented()
        from xdoctest import doctest_example, doctest_part
        self.de, self.dp = doctest_example, doctest_part
        self.job = job
        P = self.P = job['p']
        self.start = z3.Int('doctest_lineno')
        self.nsrc = [z3.Int('n_source%d' % i) for i in range(P)]
        self.nwant = [z3.Int('n_want%d' % i) for i in range(P)]
        self.lead = z3.Int('leading_text_lines')
        self.rel = z3.Bool('offset_linenos')
        self.via_config = z3.Bool('requested_through_config')   # the numbering is requested by config['offset_linenos'] (argument None) or by the argument
        self.cfg_other = z3.Bool('config_says_the_opposite')     # ... while the configuration holds the other value
        self.cfg_colored = z3.Bool('config_colored')
        self.want = z3.Bool('want')
        self.base = [z3.Or([self.start == s for s in STARTS]), self.lead >= 0, self.lead <= 2]
        for i in range(P):
            self.base += [self.nsrc[i] >= 1, self.nsrc[i] <= 3, self.nwant[i] >= 0, self.nwant[i] <= 2]

    def run(self, ex):
        from sea.core import SymBool, SymInt
        start = int(SymInt(self.start))
        lead = int(SymInt(self.lead))
        rel = bool(SymBool(self.rel))
        want = bool(SymBool(self.want))
        parts = []
        off = lead
        expected = []
        for i in range(self.P):
            ns, nw = int(SymInt(self.nsrc[i])), int(SymInt(self.nwant[i]))
            exec_lines = ['s_%d_%d' % (i, j) for j in range(ns)]
            wl = ['w_%d_%d' % (i, j) for j in range(nw)]
            parts.append(self.dp.DoctestPart(exec_lines, want_lines=wl or None, line_offset=off, orig_lines=['>>> ' + l for l in exec_lines], directives=[]))
            base = (start if rel else 1) + off
            expected += [(base + j, '>>> ' + l) for j, l in enumerate(exec_lines)]
            if want:
                expected += [(None, l) for l in wl]
            off += ns + nw
        dt = self.de.DocTest('', None, 'f', 0, start, mode='native')
        dt._parts = parts
        via_config = bool(SymBool(self.via_config))
        dt.config['colored'] = bool(SymBool(self.cfg_colored))
        if via_config:
            dt.config['offset_linenos'] = rel
            arg = None
        else:
            dt.config['offset_linenos'] = (not rel) if bool(SymBool(self.cfg_other)) else rel
            arg = rel
            if dt.config['offset_linenos'] != rel:
                ex.witness('argument_overrides_config', True)
        text = dt.format_src(linenos=True, colored=False, want=want, offset_linenos=arg, prefix=True)
        lines = text.split('\n')
        ok = len(lines) == len(expected)
        widths = set()
        if ok:
            for line, (num, body) in zip(lines, expected):
                if num is None:
                    ok = ok and line.strip() == body and line.endswith(body)
                    continue
                head, _, rest = line.partition(' >>> ')
                ok = ok and head.strip().isdigit() and int(head) == num and ('>>> ' + rest) == body
                widths.add(len(head))
            biggest = max(n for n, _ in expected if n is not None)
            # (the statement fixes the NUMBERS; a common field width is not demanded: with leading
            # text lines the real code computes the width from the code lines only - noted in DESIGN.md)
            if ok and len(str(expected[0][0])) < len(str(biggest)):
                ex.witness('width_grows_inside_the_doctest', True)
        if rel:
            ex.witness('file_relative', True)
        if not want and any(p.want_lines for p in parts[:-1]):
            ex.witness('want_hidden_gap', True)
        self.last_error = text if not ok else None
        return {'every_number_is_the_position_of_its_line': z3.BoolVal(bool(ok))}

    def describe(self, model):
        def n(v):
            return model.eval(v, model_completion=True).as_long()
        return {'harness': 'num', 'lineno': n(self.start), 'leading_text_lines': n(self.lead), 'parts': [(n(self.nsrc[i]), n(self.nwant[i])) for i in range(self.P)],
                'offset_linenos': z3.is_true(model.eval(self.rel, model_completion=True)), 'want': z3.is_true(model.eval(self.want, model_completion=True)),
                'via_config': z3.is_true(model.eval(self.via_config, model_completion=True)), 'config_other': z3.is_true(model.eval(self.cfg_other, model_completion=True)),
                'config_colored': z3.is_true(model.eval(self.cfg_colored, model_completion=True))}


def build(job):
    return Faithful(job) if job['harness'] == 'faith' else Numbering(job)


# ---------------------------------------------------------------- replay

def replay(job, cex):
    from xdoctest import doctest_example, doctest_part, parser
    if cex['harness'] == 'faith':
        parts, exp, off = [], [], 0
        for p in cex['parts']:
            orig = ['>>> ' + l for l in p['source']]
            parts.append(doctest_part.DoctestPart(list(p['source']), want_lines=list(p['want']) or None, line_offset=off, orig_lines=orig, directives=[]))
            off += len(p['source']) + len(p['want'])
            exp += (orig if cex['prefix'] else list(p['source'])) + (list(p['want']) if cex['want'] else [])
        dt = doctest_example.DocTest('', None, 'f', 0, 1, mode='native')
        dt._parts = parts
        text = dt.format_src(linenos=False, colored=False, want=cex['want'], prefix=cex['prefix'])
        return {'reproduced': text != '\n'.join(exp), 'detail': 'format_src gives %r, the lines are %r' % (text, exp), 'signature': 'C18:faithful'}
    parts, expected, off = [], [], cex['leading_text_lines']
    for i, (ns, nw) in enumerate(cex['parts']):
        exec_lines = ['s_%d_%d' % (i, j) for j in range(ns)]
        wl = ['w_%d_%d' % (i, j) for j in range(nw)]
        parts.append(doctest_part.DoctestPart(exec_lines, want_lines=wl or None, line_offset=off, orig_lines=['>>> ' + l for l in exec_lines], directives=[]))
        base = (cex['lineno'] if cex['offset_linenos'] else 1) + off
        expected += [(base + j, '>>> ' + l) for j, l in enumerate(exec_lines)]
        if cex['want']:
            expected += [(None, l) for l in wl]
        off += ns + nw
    dt = doctest_example.DocTest('', None, 'f', 0, cex['lineno'], mode='native')
    dt._parts = parts
    dt.config['colored'] = cex.get('config_colored', False)
    if cex.get('via_config'):
        dt.config['offset_linenos'] = cex['offset_linenos']
        arg = None
    else:
        dt.config['offset_linenos'] = (not cex['offset_linenos']) if cex.get('config_other') else cex['offset_linenos']
        arg = cex['offset_linenos']
    text = dt.format_src(linenos=True, colored=False, want=cex['want'], offset_linenos=arg, prefix=True)
    lines = text.split('\n')
    bad = len(lines) != len(expected)
    widths = set()
    if not bad:
        for line, (num, body) in zip(lines, expected):
            if num is None:
                bad = bad or line.strip() != body
                continue
            head, _, rest = line.partition(' >>> ')
            bad = bad or not head.strip().isdigit() or int(head) != num
            widths.add(len(head))
    return {'reproduced': bool(bad), 'detail': 'format_src(linenos=True, offset_linenos=%s) of a doctest at line %d:\n%s' % (cex['offset_linenos'], cex['lineno'], text),
            'signature': 'C18:numbering'}
