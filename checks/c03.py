"""C03 - exceptions are never swallowed; only a matching expected traceback passes.

Real code executed symbolically: the whole part loop of DocTest.run including
its except ladder, checker.check_exception, extract_exc_want (the real
_EXCEPTION_RE through the symbolic regex engine: VERBOSE, MULTILINE, DOTALL,
lazy repeat, named groups), utils.codeblock, _strip_exception_details
(find/rfind/slices), check_output, DoctestPart.check, check_got_vs_want,
RuntimeState (IGNORE_EXCEPTION_DETAIL / IGNORE_WANT as solver variables).

The match relation behind check_output is uninterpreted (variant uf: the
decision table is right for every match relation, hence for the real one
under every ELLIPSIS/whitespace flag setting) or "equal up to trailing
whitespace" (variant eq, the real relation on the alphabet used; every
counterexample is replayed end to end with real exceptions).
"""
import z3
from .common import Harness, zbool
from . import hrun

PROPERTY = 'C03'
HDR = 'Traceback (most recent call last):'
QS = ['', 'm.', 'p.q.']
STACKS = ['', '  File "f", line 1, in <module>\n', '    ...\n']
WORD = 'abAZ_09'

BOUNDS = {
    'quick': 'check_exception unit (uf and eq) + run loop with k=2 parts (eq); per part symbolic: raises or not, want form (none / free text <=3 chars / traceback block), '
             'exception line = module path in {"", m., p.q.} + name (1..2 word chars) + optional ": " + message (1..3 chars, any ASCII incl. colon, dot, newline), '
             'want final line built the same way, stack lines from a menu of 3; IGNORE_EXCEPTION_DETAIL, IGNORE_WANT, on_error symbolic',
    'thorough': 'unit with messages <=3 chars, 3 stack menus and header whitespace; run loop k=2 (uf), k=3 (eq, names and messages of one character)',
}
OUTSIDE = ('what the match relation is (C05/C06); real tracebacks of real exec (replayed only); SyntaxError-style multi-element '
           'format_exception_only output; wants whose dedent is not the identity; chained exceptions')
ASSUMPTIONS = [
    'traceback.format_exception_only(...)[-1] of the raised exception is the symbolic line  <module path><Name>[: <message>]\\n  (its documented shape)',
    'wants do not end with a newline (the parser ends a want at the first blank line)',
    'IGNORE_WANT does not relax the exception rule: "only a matching expected traceback passes" is asserted under every IGNORE_WANT setting (this is what the tree does)',
    'want-less parts and raising parts print nothing, so "output since the previous want" is unambiguous (the accumulation rule is C02)',
]


def jobs(tier):
    out = []
    q = tier == 'quick'
    # A. the decision of check_exception itself, every shape of the two texts
    for variant in ('uf', 'eq'):
        out.append({'ob': 'check_exception_unit_%s' % variant, 'harness': 'unit', 'variant': variant, 'k': 1,
                    'ncap': 2, 'dcap': 2 if q else 3, 'stacks': 2 if q else 3, 'hdrws': not q,
                    'bounds': 'one call of check_exception: module path of got/want from %r, stack lines from a menu of %d, name 1..2 chars, message 1..%d chars (any ASCII), IGNORE_EXCEPTION_DETAIL symbolic, match=%s'
                              % (QS, 2 if q else 3, 2 if q else 3, variant),
                    'splits': [3, 6, 9, 12], 'query_timeout_s': 120 if q else 600})
    # A'. multi-line messages: the message alphabet holds the line break (equality matching)
    out.append({'ob': 'check_exception_unit_multiline', 'harness': 'unit', 'variant': 'eq', 'k': 1, 'ncap': 2, 'dcap': 3, 'stacks': 2, 'hdrws': False, 'dalph': 'a:\n',
                'bounds': 'one call of check_exception: messages of 1..3 characters over {a, colon, LINE BREAK} on both sides, name 1..2 chars, IGNORE_EXCEPTION_DETAIL symbolic, match=eq',
                'splits': [3, 6, 9, 12], 'query_timeout_s': 120 if q else 600})
    # B. the run loop around it
    cfgs = [('eq', 2, 2, 2)] if q else [('uf', 2, 2, 2), ('eq', 3, 1, 1)]
    for variant, k, ncap, dcap in cfgs:
        out.append({'ob': 'run_table_%s_k%d' % (variant, k), 'harness': 'run', 'variant': variant, 'k': k, 'ncap': ncap, 'dcap': dcap,
                    'bounds': 'k=%d parts, each raising or not, want none / free text / traceback block; |name|<=%d, |message|<=%d, match=%s; IGNORE_EXCEPTION_DETAIL, IGNORE_WANT, on_error symbolic' % (k, ncap, dcap, variant),
                    'splits': [3, 6, 9, 12, 15, 18], 'query_timeout_s': 120 if q else 600})
    # C. which exceptions may end a doctest without failing it
    out.append({'ob': 'exception_classes', 'harness': 'classes', 'k': 2 if q else 3, 'query_timeout_s': 60,
                'bounds': 'k=%d parts, the raising part and its class (%s) symbolic, native / pytest mode, on_error, plain want or none' % (2 if q else 3, ', '.join(CLASSES))})
    return out


def validation_jobs(tier):
    return [{'ob': 'validate_dedent_model', 'maxlen': 5 if tier == 'quick' else 6}]


class Base(Harness):
    def setup(self, job, K):
        self.m = hrun.install()
        from sea.symstr import SymStr
        self.job = job
        self.K = K
        eq = self.eq = job['variant'] == 'eq'
        nc, dc = job['ncap'], job['dcap']
        self.base = []

        def fresh(name, cap, alph, minlen=0, exclude=()):
            s, c = SymStr.fresh(name, cap, alph, minlen=minlen, exclude=exclude)
            self.base += c
            return s
        nalph = 'ab' if eq else WORD
        dalph = job.get('dalph', 'ab:.') if eq else None
        self.raises = [z3.Bool('raises%d' % i) for i in range(K)]
        self.wf = [z3.Int('wantform%d' % i) for i in range(K)]
        self.qg = [z3.Int('qgot%d' % i) for i in range(K)]
        self.qw = [z3.Int('qwant%d' % i) for i in range(K)]
        self.sf = [z3.Int('stack%d' % i) for i in range(K)]
        self.hmg = [z3.Bool('gotmsg%d' % i) for i in range(K)]
        self.hmw = [z3.Bool('wantmsg%d' % i) for i in range(K)]
        self.hdrws = [z3.Bool('hdrws%d' % i) for i in range(K)]
        self.NG = [fresh('ng%d' % i, nc, nalph, 1) for i in range(K)]
        self.NW = [fresh('nw%d' % i, nc, nalph, 1) for i in range(K)]
        self.DG = [fresh('dg%d' % i, dc, dalph, 1) for i in range(K)]
        self.DW = [fresh('dw%d' % i, dc, dalph, 1) for i in range(K)]
        self.O = [fresh('o%d' % i, 2, 'ab' if eq else None) for i in range(K)]
        self.FW = [fresh('fw%d' % i, 3, 'ab:.' if eq else None, 1) for i in range(K)]
        for i in range(K):
            self.base += [self.wf[i] >= 0, self.wf[i] <= 2, self.qg[i] >= 0, self.qg[i] <= 2,
                          self.qw[i] >= 0, self.qw[i] <= 2, self.sf[i] >= 0, self.sf[i] <= 2]
            # a want never ends with a newline
            dw, fw = self.DW[i], self.FW[i]
            self.base.append(dw.at(dw.nz() - 1) != ord('\n'))
            self.base.append(fw.at(fw.nz() - 1) != ord('\n'))
        self.ied = z3.Bool('IGNORE_EXCEPTION_DETAIL')
        self.iw = z3.Bool('IGNORE_WANT')
        self.onraise = z3.Bool('on_error_raise')
        ck = self.m['checker']
        if eq:
            self.M = None
            ck.normalize = lambda g, w, rs=None: (g, w)
            ck._check_match = lambda g, w, rs: (SymStr.of(g).rstrip() == SymStr.of(w).rstrip())
            self.stubs = hrun.STUB_NOTES + ['checker.normalize -> identity, checker._check_match -> equality after removing trailing whitespace '
                                            '(the real relation under strict flags on the alphabet {a,b,:,.} + the concrete separators)']
        else:
            self.M = hrun.MatchUF(4 + nc + 2 + dc + 1, (len(HDR) + 1 if job.get('harness') == 'run' else 4) + nc + 2 + dc)
            self.M.install(ck)
            self.stubs = hrun.STUB_NOTES + ['checker.normalize -> identity, checker._check_match -> uninterpreted relation M']
        self.stubs = self.stubs + ['traceback.format_exception_only -> [symbolic exception line] for the harness exception',
                                   'textwrap.dedent -> identity under a checked precondition']

    def CO(self, got, want):
        """check_output for a non-empty want"""
        from sea.symstr import SymStr
        e = zbool(got == want)
        if self.M is None:
            return z3.Or(e, zbool(SymStr.of(got).rstrip() == SymStr.of(want).rstrip()))
        return z3.Or(e, self.M.z(got, want))

    def texts(self, i, lean):
        """-> (excline, F, want) of part i.  lean: only the tails are symbolic
        choices (merged, no fork) and the menus are reduced; otherwise every
        menu is forked so that all positions before the symbolic text are
        concrete."""
        from sea.core import SymBool, SymInt
        from sea.symstr import sym_ite
        if lean:
            qg = ['', 'p.q.'][int(SymInt(z3.If(self.qg[i] == 0, 0, 1)))]
            line = qg + self.NG[i] + sym_ite(self.hmg[i], ': ' + self.DG[i], '') + '\n'
            F = self.NW[i] + sym_ite(self.hmw[i], ': ' + self.DW[i], '')
            want = HDR + '\n' + F
            return line, F, want
        line = QS[int(SymInt(self.qg[i]))] + self.NG[i]
        if bool(SymBool(self.hmg[i])):
            line = line + ': ' + self.DG[i]
        line = line + '\n'
        F = QS[int(SymInt(self.qw[i]))] + self.NW[i]
        if bool(SymBool(self.hmw[i])):
            F = F + ': ' + self.DW[i]
        ns = self.job.get('stacks', 3)
        stack = STACKS[int(SymInt(z3.If(self.sf[i] >= ns, 0, self.sf[i])))]
        hdr = HDR + ('  ' if (self.job.get('hdrws') and bool(SymBool(self.hdrws[i]))) else '')
        return line, F, hdr + '\n' + stack + F

    def describe_part(self, model, i, lean, force_raises=False):
        def b(v):
            return z3.is_true(model.eval(v, model_completion=True))

        def n(v):
            return model.eval(v, model_completion=True).as_long()
        wf = n(self.wf[i])
        d = {'raises': force_raises or b(self.raises[i]), 'want_form': ['none', 'free', 'traceback'][wf]}
        if d['raises']:
            q = (['', 'p.q.'][0 if n(self.qg[i]) == 0 else 1]) if lean else QS[n(self.qg[i])]
            d.update(q=q, name=self.NG[i].concrete(model), msg=self.DG[i].concrete(model) if b(self.hmg[i]) else None)
        if wf == 1:
            d['want'] = self.FW[i].concrete(model)
        if wf == 2:
            qw = '' if lean else QS[n(self.qw[i])]
            F = qw + self.NW[i].concrete(model) + ((': ' + self.DW[i].concrete(model)) if b(self.hmw[i]) else '')
            ns = self.job.get('stacks', 3)
            stack = '' if lean else STACKS[0 if n(self.sf[i]) >= ns else n(self.sf[i])]
            hdr = HDR + ('  ' if (not lean and self.job.get('hdrws') and b(self.hdrws[i])) else '')
            d['want'] = hdr + '\n' + stack + F
            d['want_name'] = self.NW[i].concrete(model)
            d['want_final'] = F
        if not d['raises'] and wf:
            d['stdout'] = self.O[i].concrete(model)
        return d


class Unit(Base):
    """one call of the real check_exception inside an except block"""
    witnesses = ('match_full_line', 'match_by_name_only', 'mismatch', 'not_a_traceback_reraises')

    def __init__(self, job):
        self.setup(job, 1)

    def run(self, ex):
        from sea.core import SymBool, SymInt
        m = self.m
        GW = m['checker'].GotWantException
        wf = int(SymInt(self.wf[0]))
        if wf == 0:
            ex.assume(False)
        line, F, want = self.texts(0, lean=False)
        if wf == 1:
            want = self.FW[0]
        rs = m['directive'].RuntimeState({'IGNORE_EXCEPTION_DETAIL': SymBool(self.ied)})
        exc = hrun.HarnessExc(0, line)
        out = None
        try:
            raise exc
        except Exception:
            try:
                out = ('ret', m['checker'].check_exception(line, want, rs))
            except GW as e2:
                out = ('gw', e2)
            except hrun.HarnessExc as e2:
                out = ('exc', e2)
        if wf == 1:
            ex.witness('not_a_traceback_reraises', True)
            return {'non_traceback_want_reraises_the_live_exception': z3.BoolVal(out[0] == 'exc' and out[1] is exc)}
        full = self.CO(line, F)
        nameonly = z3.And(self.ied, self.CO(self.NG[0], self.NW[0]))
        ok = z3.Or(full, nameonly)
        if out[0] == 'ret':
            res = z3.And(ok, z3.BoolVal(bool(out[1]) is True))
            ex.witness('match_full_line', full)
            ex.witness('match_by_name_only', z3.And(z3.Not(full), nameonly))
        elif out[0] == 'gw':
            res = z3.Not(ok)
            ex.witness('mismatch', True)
        else:
            res = z3.BoolVal(False)
        return {'traceback_want_decision': res}

    def describe(self, model):
        return {'variant': self.job['variant'], 'harness': 'unit', 'parts': [self.describe_part(model, 0, False, force_raises=True)],
                'IGNORE_EXCEPTION_DETAIL': z3.is_true(model.eval(self.ied, model_completion=True)), 'IGNORE_WANT': False,
                'on_error': 'return'}


class ExcTable(Base):
    witnesses = ('expected_exception_passes_and_rest_runs', 'passes_only_by_ignoring_detail',
                 'non_traceback_want_reraises', 'traceback_want_without_exception_fails', 'wrong_message_fails_gotwant')

    def __init__(self, job):
        self.setup(job, job['k'])

    def run(self, ex):
        from sea.core import SymBool, SymInt
        m = self.m
        E = hrun.ENV
        E.reset()
        K = self.K
        GW = m['checker'].GotWantException
        parts, cfg = [], []
        excs = {}
        for i in range(K):
            rz = bool(SymBool(self.raises[i]))
            wf = int(SymInt(self.wf[i]))
            info = {'raises': rz, 'wf': wf}
            want = None
            line = F = None
            if rz or wf == 2:
                line, F, tbwant = self.texts(i, lean=True)
            if wf == 1:
                want = self.FW[i]
            elif wf == 2:
                want = tbwant
                info.update(F=F, NW=self.NW[i])
            if rz:
                info.update(excline=line, NG=self.NG[i])
                excs[i] = hrun.HarnessExc(i, line)
            info['want'] = want
            src = 'x = 1 #%d#' % i
            p = m['doctest_part'].DoctestPart([src], want_lines=[want] if want is not None else None,
                                              line_offset=i, orig_lines=['>>> ' + src], directives=[])
            parts.append(p)
            cfg.append(info)

            def beh(code, glb, i=i, rz=rz, wf=wf):
                if rz:
                    hrun.raise_in_doctest_frame(code, excs[i])
                if wf:
                    E.cap.write(self.O[i])
                return None
            E.behaviour[i] = beh
        dt = m['doctest_example'].DocTest('', None, 'f', 0, 1, mode='native')
        dt.config['default_runtime_state'] = {'IGNORE_EXCEPTION_DETAIL': SymBool(self.ied), 'IGNORE_WANT': SymBool(self.iw)}
        dt._parts = parts
        onraise = bool(SymBool(self.onraise))
        raised = None
        summ = None
        try:
            summ = dt.run(verbose=0, on_error='raise' if onraise else 'return')
        except Exception as e:
            raised = e
        trace = list(E.trace)

        # ---------------- decision table written from the statement
        oks, kinds = [], []
        via_detail, wrongmsg = [], []
        for i, c in enumerate(cfg):
            if c['raises']:
                if c['wf'] == 2:
                    full = self.CO(c['excline'], c['F'])
                    nameonly = z3.And(self.ied, self.CO(c['NG'], c['NW']))
                    oks.append(z3.Or(full, nameonly))
                    kinds.append('gotwant')
                    via_detail.append(z3.And(z3.Not(full), nameonly))
                    wrongmsg.append(z3.And(z3.Not(full), z3.Not(nameonly), zbool(c['NG'] == c['NW'])))
                else:
                    oks.append(z3.BoolVal(False))
                    kinds.append('exc')
            else:
                if c['wf'] == 0:
                    oks.append(z3.BoolVal(True))
                    kinds.append(None)
                else:
                    oks.append(z3.Or(self.iw, self.CO(self.O[i], c['want'])))
                    kinds.append('gotwant')
        terms = []
        for f in range(K + 1):
            pre = z3.And([oks[j] for j in range(min(f, K))] + ([z3.Not(oks[f])] if f < K else []))
            if f < K:
                exp_trace = list(range(f + 1))
                if onraise:
                    if kinds[f] == 'exc':
                        ok = raised is excs[f]
                    else:
                        ok = isinstance(raised, GW)
                    ok = ok and trace == exp_trace
                else:
                    ok = (raised is None and summ is not None and summ['failed'] is True and summ['passed'] is False
                          and trace == exp_trace and dt.failed_part is parts[f] and summ['exc_info'] is not None)
                    if ok:
                        if kinds[f] == 'exc':
                            ok = summ['exc_info'][1] is excs[f]
                        else:
                            ok = isinstance(summ['exc_info'][1], GW)
            else:
                ok = (raised is None and summ is not None and summ['failed'] is False and summ['passed'] is True
                      and summ['exc_info'] is None and trace == list(range(K)))
            terms.append(z3.Implies(pre, z3.BoolVal(bool(ok))))
        props = {'exception_decision_table': z3.And(terms)}

        passed = raised is None and summ is not None and not summ['failed']
        failed_at = parts.index(dt.failed_part) if dt.failed_part in parts else None
        for i, c in enumerate(cfg):
            if c['raises'] and c['wf'] == 2 and i < K - 1 and passed:
                ex.witness('expected_exception_passes_and_rest_runs', True)
        if passed and via_detail:
            ex.witness('passes_only_by_ignoring_detail', z3.Or(via_detail))
        if not passed and failed_at is not None and cfg[failed_at]['raises'] and cfg[failed_at]['wf'] == 1:
            ex.witness('non_traceback_want_reraises', True)
        if not passed and failed_at is not None and not cfg[failed_at]['raises'] and cfg[failed_at]['wf'] == 2:
            ex.witness('traceback_want_without_exception_fails', True)
        if not passed and wrongmsg:
            ex.witness('wrong_message_fails_gotwant', z3.Or(wrongmsg))
        return props

    def describe(self, model):
        def b(v):
            return z3.is_true(model.eval(v, model_completion=True))
        return {'variant': self.job['variant'], 'harness': 'run', 'parts': [self.describe_part(model, i, True) for i in range(self.K)],
                'IGNORE_EXCEPTION_DETAIL': b(self.ied), 'IGNORE_WANT': b(self.iw), 'on_error': 'raise' if b(self.onraise) else 'return'}


# ---------------------------------------------------------------- exception classes (kind II)

CLASSES = ['exception', 'base_exception_subclass', 'pytest_fail', 'pytest_xfail', 'pytest_skip', 'exit_test']
EARLY_EXIT = ('pytest_skip', 'exit_test')       # the two documented ways to end a doctest early without failing


def make_exception(cls):
    if cls == 'exception':
        return KeyError('boom')
    if cls == 'base_exception_subclass':
        return type('UserAbort', (BaseException,), {})('abort')
    if cls in ('pytest_fail', 'pytest_xfail', 'pytest_skip'):
        import _pytest.outcomes as O
        return {'pytest_fail': O.Failed, 'pytest_xfail': getattr(O, 'XFailed', O.Failed), 'pytest_skip': O.Skipped}[cls]('outcome')
    from xdoctest import exceptions
    return exceptions.ExitTestException()


def classes_verdict(cls, f, K, trace, raised, summ, exc):
    """-> list of problems: what the statement allows for an exception of this class raised by part f"""
    bad = []
    if trace != list(range(f + 1)):
        bad.append('parts executed %r, expected %r' % (trace, list(range(f + 1))))
    if cls in EARLY_EXIT:
        if raised is not None and cls == 'exit_test':
            bad.append('ExitTestException escapes run: %r' % (raised,))
        if summ is not None and summ.get('failed'):
            bad.append('documented early exit reported as failure')
    else:
        swallowed = raised is None and (summ is None or not summ.get('failed'))
        if swallowed:
            bad.append('the exception is swallowed: run returned %r' % ({k: summ.get(k) for k in ('passed', 'failed', 'skipped')} if summ else None))
        elif raised is not None and raised is not exc and cls != 'exception':
            bad.append('another exception escapes: %r' % (raised,))
    return bad


class Classes(Harness):
    witnesses = ('pytest_fail_in_a_later_part', 'early_exit', 'ordinary_exception_reported')

    def __init__(self, job):
        self.m = hrun.install()
        self.job = job
        K = self.K = job['k']
        self.f = z3.Int('raising_part')
        self.cls = z3.Int('exception_class')
        self.onraise = z3.Bool('on_error_raise')
        self.pytest_mode = z3.Bool('pytest_mode')
        self.haswant = z3.Bool('raising_part_has_a_plain_want')
        self.base = [self.f >= 0, self.f < K, self.cls >= 0, self.cls < len(CLASSES)]
        self.stubs = hrun.STUB_NOTES

    def run(self, ex):
        from sea.core import SymBool, SymInt
        m = self.m
        E = hrun.ENV
        E.reset()
        K = self.K
        f = int(SymInt(self.f))
        cls = CLASSES[int(SymInt(self.cls))]
        onraise = bool(SymBool(self.onraise))
        mode = 'pytest' if bool(SymBool(self.pytest_mode)) else 'native'
        haswant = bool(SymBool(self.haswant))
        exc = make_exception(cls)
        parts = []
        for i in range(K):
            src = 'x = 1 #%d#' % i
            parts.append(m['doctest_part'].DoctestPart([src], want_lines=['w'] if (i == f and haswant) else None, line_offset=i, orig_lines=['>>> ' + src], directives=[]))

            def beh(code, glb, i=i):
                if i == f:
                    hrun.raise_in_doctest_frame(code, exc)
                return None
            E.behaviour[i] = beh
        dt = m['doctest_example'].DocTest('', None, 'f', 0, 1, mode=mode)
        dt.config['colored'] = False
        dt._parts = parts
        raised = summ = None
        try:
            summ = dt.run(verbose=0, on_error='raise' if onraise else 'return')
        except BaseException as e:
            if type(e).__module__.startswith('sea.'):
                raise
            raised = e
        bad = classes_verdict(cls, f, K, list(E.trace), raised, summ, exc)
        self.last_error = bad
        if not bad:
            if cls == 'pytest_fail' and f >= 1:
                ex.witness('pytest_fail_in_a_later_part', True)
            if cls in EARLY_EXIT:
                ex.witness('early_exit', True)
            if cls == 'exception' and not onraise:
                ex.witness('ordinary_exception_reported', True)
        return {'exception_is_never_swallowed': z3.BoolVal(not bad)}

    def describe(self, model):
        def b(v):
            return z3.is_true(model.eval(v, model_completion=True))
        return {'harness': 'classes', 'raising_part': model.eval(self.f, model_completion=True).as_long(), 'k': self.K,
                'class': CLASSES[model.eval(self.cls, model_completion=True).as_long()], 'on_error': 'raise' if b(self.onraise) else 'return',
                'mode': 'pytest' if b(self.pytest_mode) else 'native', 'plain_want': b(self.haswant)}


def replay_classes(cex):
    """a real doctest text through the real parser and run loop"""
    from xdoctest import core
    cls, f, K = cex['class'], cex['raising_part'], cex['k']
    stmt = {'exception': "raise KeyError('boom')", 'base_exception_subclass': "raise type('UserAbort', (BaseException,), {})('abort')",
            'pytest_fail': "import pytest; pytest.fail('outcome')", 'pytest_xfail': "import pytest; pytest.xfail('outcome')",
            'pytest_skip': "import pytest; pytest.skip('outcome')",
            'exit_test': 'import xdoctest; (_ for _ in ()).throw(xdoctest.ExitTestException())'}[cls]
    TRACE = []
    lines = []
    for i in range(K):
        lines.append('>>> __t(%d)' % i)
        if i == f:
            lines.append('>>> ' + stmt)
            if cex['plain_want']:
                lines.append('w')
        lines.append('')
    dt = list(core.parse_docstr_examples('\n'.join(lines) + '\n'))[0]
    dt.mode = cex['mode']
    dt.config['colored'] = False
    dt.global_namespace['__t'] = TRACE.append
    raised = summ = None
    try:
        summ = dt.run(verbose=0, on_error=cex['on_error'])
    except BaseException as e:
        raised = e
    exc = raised
    bad = classes_verdict(cls, f, K, TRACE, raised, summ, exc)
    return {'reproduced': bool(bad), 'detail': 'doctest %r (mode %s, on_error %s): raised %r summary %r: %s' % (
        '\n'.join(lines), cex['mode'], cex['on_error'], raised, {k: summ.get(k) for k in ('passed', 'failed', 'skipped')} if summ else None, bad),
        'signature': 'C03:classes:%s:%s' % (cls, 'swallowed' if any('swallowed' in b for b in bad) else 'other')}


def build(job):
    if job.get('harness') == 'classes':
        return Classes(job)
    return Unit(job) if job.get('harness') == 'unit' else ExcTable(job)


# ---------------------------------------------------------------- model validation

def validate(job):
    """textwrap.dedent identity precondition vs CPython"""
    import textwrap
    from .common import instrumented
    instrumented()
    from sea import validate as V
    from sea.symstr import dedent_identity_cond
    from sea.core import SymBool
    samples = V.strings(' \ta\n', job['maxlen'], limit=3000, seed=job.get('seed', 0),
                        extra=['Traceback (x):\n  a\nb', ' a\n b', 'a\n \nb', '\n a', 'a\n\t'])
    return V.validate(lambda s: SymBool(dedent_identity_cond(s)), lambda s: textwrap.dedent(s) == s, [max(22, job['maxlen'])], samples)


# ---------------------------------------------------------------- replay

def _eqm(g, w):
    return g == w or g.rstrip() == w.rstrip()


def reference(cex):
    parts = cex['parts']
    trace = []
    for i, p in enumerate(parts):
        trace.append(i)
        if p['raises']:
            line = p['q'] + p['name'] + ((': ' + p['msg']) if p['msg'] is not None else '') + '\n'
            if p['want_form'] == 'traceback':
                ok = _eqm(line, p['want_final']) or (cex['IGNORE_EXCEPTION_DETAIL'] and _eqm(p['name'], p['want_name']))
                if not ok:
                    return {'failed': True, 'kind': 'gotwant', 'at': i, 'trace': trace}
            else:
                return {'failed': True, 'kind': 'exc', 'at': i, 'trace': trace}
        elif p['want_form'] != 'none':
            if not (cex['IGNORE_WANT'] or _eqm(p.get('stdout', ''), p['want'])):
                return {'failed': True, 'kind': 'gotwant', 'at': i, 'trace': trace}
    return {'failed': False, 'trace': trace}


def real_run(cex):
    from xdoctest import doctest_example, doctest_part, checker
    strict = {'ELLIPSIS': False, 'NORMALIZE_WHITESPACE': False, 'IGNORE_WHITESPACE': False,
              'NORMALIZE_REPR': False, 'DONT_ACCEPT_BLANKLINE': True,
              'IGNORE_EXCEPTION_DETAIL': cex['IGNORE_EXCEPTION_DETAIL'], 'IGNORE_WANT': cex['IGNORE_WANT']}
    dt = doctest_example.DocTest('', None, 'f', 0, 1, mode='native')
    dt.config['default_runtime_state'] = strict
    TRACE, EXCS = [], {}
    real_parts = []
    for i, p in enumerate(cex['parts']):
        if p['raises']:
            src = '__r(%d, %r, %r, %r)' % (i, p['q'], p['name'], p['msg'])
        else:
            src = '__g(%d, %r)' % (i, p.get('stdout', ''))
        rp = doctest_part.DoctestPart([src], want_lines=p['want'].split('\n') if p['want_form'] != 'none' else None,
                                      line_offset=i, orig_lines=['>>> ' + src], directives=[])
        real_parts.append(rp)
    dt._parts = real_parts

    def r(i, q, name, msg):
        TRACE.append(i)
        cls = type(name, (Exception,), {'__module__': q[:-1] if q else 'builtins'})
        cls.__qualname__ = name
        e = cls(msg) if msg is not None else cls()
        EXCS[i] = e
        raise e

    def g(i, o):
        import sys
        TRACE.append(i)
        sys.stdout.write(o)
    dt.global_namespace.update(__r=r, __g=g)
    raised = None
    summ = None
    try:
        summ = dt.run(verbose=0, on_error=cex['on_error'])
    except Exception as e:
        raised = e
    out = {'trace': TRACE, 'raised': type(raised).__name__ if raised is not None else None}
    exc = raised if raised is not None else (summ['exc_info'][1] if summ and summ['exc_info'] else None)
    out['failed'] = exc is not None
    if exc is not None:
        out['kind'] = 'gotwant' if isinstance(exc, checker.GotWantException) else ('exc' if any(exc is e for e in EXCS.values()) else 'other:' + type(exc).__name__)
        out['at'] = real_parts.index(dt.failed_part) if dt.failed_part in real_parts else None
    if summ is not None:
        out['passed'] = summ['passed']
    return out


def replay(job, cex):
    if cex.get('harness') == 'classes':
        return replay_classes(cex)
    if cex.get('variant') != 'eq':
        return {'reproduced': False, 'abstract': True,
                'detail': 'counterexample for an arbitrary match relation; not realisable without fixing M (see the eq variant)'}
    for p in cex['parts']:
        if p['raises'] and p['msg'] is not None and p['msg'] == '':
            return {'reproduced': False, 'abstract': True, 'detail': 'empty message with colon is not realisable'}
    exp = reference(cex)
    real = real_run(cex)
    bad = []
    if real['failed'] != exp['failed']:
        bad.append('swallowed' if exp['failed'] else 'false-fail')
    if real['trace'] != exp['trace']:
        bad.append('trace')
    if exp['failed'] and real['failed']:
        if real.get('kind') != exp['kind']:
            bad.append('kind')
        if real.get('at') != exp['at']:
            bad.append('failed_part')
    return {'reproduced': bool(bad), 'detail': 'differs in %s: expected %r, real %r' % (bad, exp, real),
            'signature': 'C03:' + ','.join(sorted(set(bad)))}
