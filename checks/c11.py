"""C11 - runs are isolated: a doctest behaves the same whatever ran before it.

rerun     the SAME DocTest object is run twice on a symbolic doctest (k parts
          with symbolic has-want / stdout / want texts, equality as match
          relation): summary, execution trace, failing part and logged stdout
          of the second run equal those of the first, whatever the first run
          left behind (pending unmatched output, a failure, names).
sequence  doctest A (symbolic block/inline directives: SKIP, REQUIRES(unmet),
          IGNORE_WANT, report style; statements that bind names and rebind a
          module global; passing or failing) runs first, then a probe doctest B
          of the same module that shares A's config dictionaries: B's trace and
          verdict are those of B run alone, it does not see A's names, the
          module's own globals are untouched, every namespace is empty after
          its run, and neither directive.DEFAULT_RUNTIME_STATE nor the shared
          default_runtime_state dictionary (incl. its REQUIRES set) changed.
"""
import types
import z3
from .common import Harness, zbool
from . import hrun

PROPERTY = 'C11'
BOUNDS = {'quick': 'rerun: k=2 parts, texts <=2 chars over {a,b}; sequence: A with 2 events then probe B',
          'thorough': 'rerun: k=3 parts; sequence: A with 3 events; three runs A, B, A again'}
OUTSIDE = 'what real doctest code does to process state (sys.modules, files, monkey patching): the code of a part is a harness stub; sys.stdout / warning filters are C12'
ASSUMPTIONS = ['the behaviour of a part is a deterministic function of the schedule (same output, same exception) - isolation is about what xdoctest carries over, not about the doctest being deterministic']
ARG_UNMET = 'env:XDV_C11_UNMET==1'


def jobs(tier):
    q = tier == 'quick'
    return [{'ob': 'rerun_same_doctest', 'harness': 'rerun', 'k': 2 if q else 3, 'splits': [3, 6, 9], 'query_timeout_s': 60,
             'bounds': 'k=%d parts, stdout <=1 char, want <=3 chars over {a,b}' % (2 if q else 3)},
            {'ob': 'sequence_a_then_b', 'harness': 'seq', 'k': 2 if q else 3, 'again': not q, 'splits': [3, 6, 9], 'query_timeout_s': 60,
             'bounds': 'A: %d events, B: fixed probe' % (2 if q else 3)}]


class Rerun(Harness):
    witnesses = ('first_run_fails_with_pending_output', 'first_run_passes', 'first_run_skipped')

    def __init__(self, job):
        self.m = hrun.install()
        from sea.symstr import SymStr
        self.job = job
        K = self.K = job['k']
        self.base = []
        self.outs, self.wants = [], []
        for i in range(K):
            o, c = SymStr.fresh('o%d' % i, 1, 'ab')
            self.base += c
            self.outs.append(o)
            w, c = SymStr.fresh('w%d' % i, 3, 'ab', minlen=1)
            self.base += c
            self.wants.append(w)
        self.hascode = [z3.Bool('hascode%d' % i) for i in range(K)]
        self.haswant = [z3.Bool('haswant%d' % i) for i in range(K)]
        ck = self.m['checker']
        ck.normalize = lambda g, w, rs=None: (g, w)
        ck._check_match = lambda g, w, rs: (g == w)
        self.stubs = hrun.STUB_NOTES + ['checker.normalize -> identity, _check_match -> equality over {a,b}']

    def observe(self, dt, summ, parts):
        E = hrun.ENV
        fp = parts.index(dt.failed_part) if dt.failed_part in parts else None
        return {'flags': (summ['passed'], summ['failed'], summ['skipped']), 'trace': list(E.trace), 'failed_part': fp,
                'exc': type(summ['exc_info'][1]).__name__ if summ['exc_info'] else None,
                'logged': dict(dt.logged_stdout), 'ns_empty': len(dt.global_namespace) == 0}

    def run(self, ex):
        from sea.core import SymBool
        m = self.m
        E = hrun.ENV
        E.reset()
        parts = []
        for i in range(self.K):
            hc = bool(SymBool(self.hascode[i]))
            hw = bool(SymBool(self.haswant[i])) if hc else False
            src = ('x = 1 #%d#' if hc else '# nothing #%d#') % i
            parts.append(m['doctest_part'].DoctestPart([src], want_lines=[self.wants[i]] if hw else None, line_offset=i,
                                                       orig_lines=['>>> ' + src], directives=[]))
            E.behaviour[i] = (lambda code, glb, i=i: E.cap.write(self.outs[i]))
        dt = m['doctest_example'].DocTest('', None, 'f', 0, 1, mode='native')
        dt._parts = parts
        s1 = dt.run(verbose=0, on_error='return')
        o1 = self.observe(dt, s1, parts)
        pending_after_1 = list(dt._unmatched_stdout)
        E.trace = []
        s2 = dt.run(verbose=0, on_error='return')
        o2 = self.observe(dt, s2, parts)
        props = {}
        props['same_verdict'] = z3.BoolVal(o1['flags'] == o2['flags'] and o1['exc'] == o2['exc'] and o1['failed_part'] == o2['failed_part'])
        props['same_trace'] = z3.BoolVal(o1['trace'] == o2['trace'])
        lg = [z3.BoolVal(set(o1['logged']) == set(o2['logged']))]
        for k in o1['logged']:
            if k in o2['logged']:
                lg.append(zbool(o1['logged'][k] == o2['logged'][k]))
        props['same_logged_stdout'] = z3.And(lg)
        props['namespace_empty_after_each_run'] = z3.BoolVal(o1['ns_empty'] and o2['ns_empty'])
        if s1['failed'] and pending_after_1:
            ex.witness('first_run_fails_with_pending_output', z3.Or([zbool(p != '') for p in pending_after_1]))
        if s1['passed']:
            ex.witness('first_run_passes', True)
        if s1['skipped']:
            ex.witness('first_run_skipped', True)
        return props

    def describe(self, model):
        def b(v):
            return z3.is_true(model.eval(v, model_completion=True))
        return {'harness': 'rerun', 'parts': [{'has_code': b(self.hascode[i]), 'has_want': b(self.haswant[i]) and b(self.hascode[i]),
                                               'stdout': self.outs[i].concrete(model), 'want': self.wants[i].concrete(model)}
                                              for i in range(self.K)]}


EVENTS = ['plain', 'plain_want_ok', 'plain_want_bad', 'bind_names', 'block+SKIP', 'block+REQUIRES', 'block+IGNORE_WANT',
          'block-REPORT_NDIFF', 'inline+SKIP', 'inline+REQUIRES', 'raise']


class Sequence(Harness):
    witnesses = ('a_leaves_skip_on', 'a_leaves_requires_pending', 'a_fails', 'a_binds_names', 'a_changes_report_style')

    def __init__(self, job):
        import os
        self.m = hrun.install()
        os.environ.pop('XDV_C11_UNMET', None)
        self.job = job
        K = self.K = job['k']
        self.ev = [z3.Int('event%d' % i) for i in range(K)]
        self.shared_req = z3.Bool('default_options_hold_a_requires_set')
        self.base = []
        for i in range(K):
            self.base += [self.ev[i] >= 0, self.ev[i] < len(EVENTS)]
        ck = self.m['checker']
        ck.normalize = lambda g, w, rs=None: (g, w)
        ck._check_match = lambda g, w, rs: (g == w)
        self.stubs = hrun.STUB_NOTES + ['checker.normalize -> identity, _check_match -> equality']

    def build_a(self, evs, module, shared):
        m = self.m
        D = m['directive']
        E = hrun.ENV
        P = m['doctest_part'].DoctestPart
        parts = []
        for i, e in enumerate(evs):
            idx = 100 + i
            dirs, want, code = [], None, True
            if e.startswith('block'):
                code = False
            if e.endswith('SKIP'):
                dirs = [D.Directive('SKIP', True, [], e.startswith('inline'))]
            elif e.endswith('REQUIRES'):
                dirs = [D.Directive('REQUIRES', True, [ARG_UNMET], e.startswith('inline'))]
            elif e.endswith('IGNORE_WANT'):
                dirs = [D.Directive('IGNORE_WANT', True, [], False)]
            elif e.endswith('REPORT_NDIFF'):
                dirs = [D.Directive('REPORT_NDIFF', False, [], False)]
            if e in ('plain_want_ok', 'plain_want_bad'):
                want = ['w']
            src = ('x = 1 #%d#' if code else '# xdoctest: directive #%d#') % idx
            parts.append(P([src], want_lines=want, line_offset=i, orig_lines=['>>> ' + src], directives=dirs))

            def beh(code_, glb, e=e, idx=idx):
                E.seen_glb.append(glb)
                if e == 'plain_want_ok':
                    E.cap.write('w')
                elif e == 'plain_want_bad':
                    E.cap.write('x')
                elif e == 'plain':
                    E.cap.write('pending')
                elif e == 'bind_names':
                    glb['NEW_NAME'] = 1
                    glb['MODULE_GLOBAL'] = 'rebound by A'
                elif e == 'raise':
                    hrun.raise_in_doctest_frame(code_, hrun.HarnessExc(idx))
            E.behaviour[idx] = beh
        dt = m['doctest_example'].DocTest('', None, 'a', 0, 1, mode='native')
        dt.module = module
        dt.config.update(shared)
        dt._parts = parts
        return dt

    def build_b(self, module, shared):
        m = self.m
        E = hrun.ENV
        P = m['doctest_part'].DoctestPart
        srcs = ['x = 1 #200#', 'x = 2 #201#', 'x = 3 #202#']
        parts = [P([srcs[0]], want_lines=['w'], line_offset=0, orig_lines=['>>> ' + srcs[0]], directives=[]),
                 P([srcs[1]], want_lines=None, line_offset=2, orig_lines=['>>> ' + srcs[1]], directives=[]),
                 P([srcs[2]], want_lines=['y'], line_offset=3, orig_lines=['>>> ' + srcs[2]], directives=[])]

        def b0(code, glb):
            E.b_sees.append(('NEW_NAME' in glb, glb.get('MODULE_GLOBAL')))
            E.seen_glb.append(glb)
            E.cap.write('w')

        def b2(code, glb):
            E.cap.write('x')
        E.behaviour[200] = b0
        E.behaviour[201] = lambda code, glb: None
        E.behaviour[202] = b2
        dt = m['doctest_example'].DocTest('', None, 'b', 0, 50, mode='native')
        dt.module = module
        dt.config.update(shared)
        dt._parts = parts
        return dt, parts

    def run(self, ex):
        from sea.core import SymBool, SymInt
        m = self.m
        D = m['directive']
        E = hrun.ENV
        E.reset()
        E.seen_glb, E.b_sees = [], []
        evs = [EVENTS[int(SymInt(v))] for v in self.ev]
        module = types.ModuleType('m_c11')
        module.MODULE_GLOBAL = 'original'
        shared_req = bool(SymBool(self.shared_req))
        shared_state = {'REQUIRES': set()} if shared_req else {}
        shared = {'default_runtime_state': shared_state, 'colored': False}
        defaults_before = repr(sorted((k, sorted(v) if isinstance(v, set) else v) for k, v in D.DEFAULT_RUNTIME_STATE.items()))
        a = self.build_a(evs, module, shared)
        b, bparts = self.build_b(module, shared)
        sa = a.run(verbose=0, on_error='return')
        a_ns_empty = len(a.global_namespace) == 0
        E.trace = []
        sb = b.run(verbose=0, on_error='return')
        props = {}
        props['b_behaves_as_if_alone'] = z3.BoolVal(
            E.trace == [200, 201, 202] and sb['failed'] is True and b.failed_part is bparts[2]
            and type(sb['exc_info'][1]).__name__ == 'GotWantException' and b.logged_stdout.get(0) == 'w')
        props['b_does_not_see_names_of_a'] = z3.BoolVal(E.b_sees == [(False, 'original')])
        props['module_globals_untouched'] = z3.BoolVal(module.MODULE_GLOBAL == 'original' and not hasattr(module, 'NEW_NAME')
                                                       and all(g is not module.__dict__ for g in E.seen_glb))
        props['namespaces_cleared'] = z3.BoolVal(a_ns_empty and len(b.global_namespace) == 0)
        after = repr(sorted((k, sorted(v) if isinstance(v, set) else v) for k, v in D.DEFAULT_RUNTIME_STATE.items()))
        props['defaults_untouched'] = z3.BoolVal(after == defaults_before and shared_state == ({'REQUIRES': set()} if shared_req else {}))
        if self.job.get('again'):
            E.trace = []
            E.seen_glb = []
            sa2 = a.run(verbose=0, on_error='return')
            props['a_again_same_verdict'] = z3.BoolVal((sa2['passed'], sa2['failed'], sa2['skipped']) == (sa['passed'], sa['failed'], sa['skipped']))
        if any(e == 'block+SKIP' for e in evs):
            ex.witness('a_leaves_skip_on', True)
        if any(e == 'block+REQUIRES' for e in evs):
            ex.witness('a_leaves_requires_pending', True)
        if sa['failed']:
            ex.witness('a_fails', True)
        if 'bind_names' in evs and 100 + evs.index('bind_names') in [t for t in []] or 'bind_names' in evs:
            ex.witness('a_binds_names', True)
        if 'block-REPORT_NDIFF' in evs:
            ex.witness('a_changes_report_style', True)
        return props

    def describe(self, model):
        return {'harness': 'seq', 'events': [EVENTS[model.eval(v, model_completion=True).as_long()] for v in self.ev],
                'shared_requires_set': z3.is_true(model.eval(self.shared_req, model_completion=True))}


def build(job):
    return Rerun(job) if job['harness'] == 'rerun' else Sequence(job)


# ---------------------------------------------------------------- replay with real docstrings

def replay(job, cex):
    import os
    from xdoctest import core, directive
    os.environ.pop('XDV_C11_UNMET', None)
    strict = {'ELLIPSIS': False, 'NORMALIZE_WHITESPACE': False, 'NORMALIZE_REPR': False}
    if cex['harness'] == 'rerun':
        lines = []
        for i, p in enumerate(cex['parts']):
            if not p['has_code']:
                lines.append('>>> # nothing %d' % i)
                continue
            lines.append('>>> TRACE.append(%d); import sys; sys.stdout.write(%r)  # xdoctest: +IGNORE_WHITESPACE' % (i, p['stdout'])
                         if False else '>>> _p(%d, %r)' % (i, p['stdout']))
            if p['has_want']:
                lines.append(p['want'])
            else:
                lines.append('')            # blank line: the next statement starts a new part
        doc = '\n'.join(lines) + '\n'
        dt = list(core.parse_docstr_examples(doc))[0]
        dt.mode = 'native'
        dt.config['default_runtime_state'] = strict
        obs = []
        for _ in range(2):
            TRACE = []

            def _p(i, o, TRACE=TRACE):
                import sys
                TRACE.append(i)
                sys.stdout.write(o)
            dt.global_namespace['_p'] = _p
            s = dt.run(on_error='return', verbose=0)
            obs.append(((s['passed'], s['failed'], s['skipped']), list(TRACE), type(s['exc_info'][1]).__name__ if s['exc_info'] else None))
        return {'reproduced': obs[0] != obs[1], 'detail': 'docstring %r: first run %r, second run %r' % (doc, obs[0], obs[1]),
                'signature': 'C11:rerun-differs'}
    # sequence: realise A as a docstring of a real module, B as the probe
    import sys
    import tempfile
    import shutil
    d = tempfile.mkdtemp(prefix='xdv-c11-')
    try:
        alines = []
        for e in cex['events']:
            if e == 'plain':
                alines += ['>>> print("pending")', '']
            elif e == 'plain_want_ok':
                alines += ['>>> print("w")', 'w']
            elif e == 'plain_want_bad':
                alines += ['>>> print("x")', 'w']
            elif e == 'bind_names':
                alines += ['>>> NEW_NAME = 1', '>>> MODULE_GLOBAL = "rebound by A"', '']
            elif e == 'raise':
                alines += ['>>> raise KeyError("a")', '']
            elif e.startswith('block'):
                name = e[5:]
                arg = '(%s)' % ARG_UNMET if name.endswith('REQUIRES') else ''
                alines += ['>>> # xdoctest: %s%s' % (name, arg)]
            else:
                name = e[6:]
                arg = '(%s)' % ARG_UNMET if name.endswith('REQUIRES') else ''
                alines += ['>>> y = 0  # xdoctest: %s%s' % (name, arg)]
        src = ('MODULE_GLOBAL = "original"\n\ndef a():\n    """\n    Example:\n' + ''.join('        %s\n' % l for l in alines) + '    """\n\n'
               'def b():\n    """\n    Example:\n        >>> print("NEW_NAME" in globals(), MODULE_GLOBAL)\n        False original\n'
               '        >>> x = 2\n        >>> print("x")\n        y\n    """\n')
        path = os.path.join(d, 'm_c11_replay.py')
        with open(path, 'w') as f:
            f.write(src)
        sys.path.insert(0, d)
        exs = {e.callname: e for e in core.parse_doctestables(path)}
        shared_state = {'REQUIRES': set()} if cex.get('shared_requires_set') else {}
        shared_state.update(strict)
        for e in exs.values():
            e.mode = 'native'
            e.config['default_runtime_state'] = shared_state
        before = repr(sorted((k, sorted(v) if isinstance(v, set) else v) for k, v in directive.DEFAULT_RUNTIME_STATE.items()))
        exs['a'].run(on_error='return', verbose=0)
        sb = exs['b'].run(on_error='return', verbose=0)
        bad = []
        if not (sb['failed'] and type(sb['exc_info'][1]).__name__ == 'GotWantException' and exs['b'].failed_part.want == 'y'):
            bad.append('b-differs')
        mod = sys.modules.get('m_c11_replay')
        if mod is not None and (mod.MODULE_GLOBAL != 'original' or hasattr(mod, 'NEW_NAME')):
            bad.append('module-globals')
        if exs['a'].global_namespace or exs['b'].global_namespace:
            bad.append('namespace-not-cleared')
        after = repr(sorted((k, sorted(v) if isinstance(v, set) else v) for k, v in directive.DEFAULT_RUNTIME_STATE.items()))
        if after != before or shared_state.get('REQUIRES', set()) != set():
            bad.append('defaults-mutated')
        return {'reproduced': bool(bad), 'detail': 'module %r: %s; summary of b: %r' % (src, bad, {k: sb[k] for k in ('passed', 'failed', 'skipped')}),
                'signature': 'C11:seq:' + ','.join(bad)}
    finally:
        sys.modules.pop('m_c11_replay', None)
        if d in sys.path:
            sys.path.remove(d)
        shutil.rmtree(d, ignore_errors=True)
