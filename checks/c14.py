"""C14 - malformed docstrings are contained: bad syntax never crashes collection.

parse_contains   DoctestParser.parse (all three phases) on k SYMBOLIC lines where
                 the components behind it may not only answer anything but also
                 RAISE anything: the balance oracle (tokenizer) raises
                 TokenError / IndentationError / SyntaxError / ValueError /
                 RecursionError / MemoryError / StopIteration / AssertionError,
                 the statement-boundary oracle (ast) and Directive.extract
                 likewise.  Only the library's own DoctestParseError may leave
                 parse(), on every path, and every path terminates.
collection_goes_on  the real core.parse_doctestables loop and
                 parse_docstr_examples (styles auto / google / freeform) over m
                 docstrings of which a symbolic subset is malformed in a
                 symbolic way (parse error carrying a SyntaxError whose text
                 holds braces / percent signs, offset 0 / None / beyond the
                 text; a non-syntax error; a MalformedDocstr): each bad
                 docstring gives a warning and no example, every other
                 docstring's examples are still yielded, in order.
real_malformed   the REAL parser + tokenizer on docstrings assembled from a
                 menu of nasty fragments (enumeration through the explorer).
"""
import z3
from .common import Harness, zbool, instrumented
from . import c13

PROPERTY = 'C14'
RAISES = ['TokenError', 'IndentationError', 'SyntaxError', 'ValueError', 'RecursionError', 'MemoryError', 'StopIteration',
          'AssertionError', 'IndexError', 'KeyError', 'UnicodeDecodeError']
NASTY = ['>>> x = (', '>>> "', ">>> '''", '... )', '>>> x = 1  # xdoctest: +REQUIRES(module:os))', '>>> # doctest: +ELLIPSIS)',
         '>>> y = 1  # xdoctest: +REQUIRES(module:os', '>>> d = {"a" 1}', '>>> print("{}".format(3) 4)', '>>> if True:', '...  x', '>>> \\',
         '>>> \x00', '    >>> def f(:', 'w', '', '>>> return 1', '>>> x = 1;; y', '>>> 1 +', '... ', '>>> @', '>>> lambda: (yield)',
         '>>>', '... x = (1,']
BOUNDS = {'quick': 'parse_contains: 2 symbolic lines x <=5 chars, every oracle call may raise one of %d exception types; collection: 3 docstrings; real_malformed: 2 lines from %d fragments' % (len(RAISES), len(NASTY)),
          'thorough': 'parse_contains: 3 lines; collection: 4 docstrings; real_malformed: 2 lines (as quick)'}
OUTSIDE = 'that CPython\'s tokenizer / ast raise only these exception types (their contract is the stub); BaseException (KeyboardInterrupt); warnings turned into errors by the caller\'s filters'
ASSUMPTIONS = c13.ASSUMPTIONS[:2]


def jobs(tier):
    q = tier == 'quick'
    return [{'ob': 'parse_contains', 'harness': 'sym', 'k': 2 if q else 3, 'cap': 5 if q else 4, 'splits': [3, 6, 9, 12, 15],
             'query_timeout_s': 120 if q else 600, 'job_timeout_s': 900 if q else 3000, 'bounds': BOUNDS[tier]},
            {'ob': 'collection_goes_on', 'harness': 'coll', 'm': 3 if q else 4, 'splits': [3, 6, 9], 'query_timeout_s': 60,
             'bounds': '%d docstrings, each fine / empty / malformed in one of 5 ways, 3 styles' % (3 if q else 4)},
            {'ob': 'real_malformed', 'harness': 'real', 'k': 2, 'splits': [2, 4, 6], 'query_timeout_s': 60,
             'bounds': '%d lines from %d nasty fragments in 4 docstring forms, real tokenizer' % (2, len(NASTY))}]


def make_exc(name):
    import tokenize
    if name == 'TokenError':
        return tokenize.TokenError('EOF in multi-line statement', (2, 0))
    if name == 'UnicodeDecodeError':
        return UnicodeDecodeError('utf-8', b'\xff', 0, 1, 'invalid start byte')
    return {'IndentationError': IndentationError, 'SyntaxError': SyntaxError, 'ValueError': ValueError, 'RecursionError': RecursionError,
            'MemoryError': MemoryError, 'StopIteration': StopIteration, 'AssertionError': AssertionError, 'IndexError': IndexError,
            'KeyError': KeyError}[name]('raised by the oracle')


class Contains(c13.SymLines):
    witnesses = ('oracle_raised_and_contained', 'parsed')

    def __init__(self, job):
        c13.SymLines.__init__(self, job)
        from xdoctest import directive
        harness = self
        self.nextract = 0

        def extract(cls, text):
            harness.nextract += 1
            harness.maybe_raise('extract_%d' % harness.nextract)
            return iter(())
        directive.Directive.extract = classmethod(extract)
        self.stubs = ['static.is_balanced_statement -> fresh Boolean per call OR raises one of %r' % RAISES,
                      'DoctestParser._locate_ps1_linenos -> any sorted subset / mode hint OR raises', 'Directive.extract -> nothing OR raises']

    def maybe_raise(self, tag):
        from sea.core import SymBool, SymInt
        if self.raised_count < 1 and bool(SymBool(z3.Bool('raises_' + tag))):
            self.raised_count += 1
            w = z3.Int('which_' + tag)
            from sea import core
            core.ex().assume(z3.And(w >= 0, w < len(RAISES)))
            raise make_exc(RAISES[int(SymInt(w))])

    def balance_answer(self, n):
        self.maybe_raise('balance_%d' % n)
        return c13.SymLines.balance_answer(self, n)

    def locate_answer(self, source_lines):
        self.maybe_raise('locate_%d' % (self.nloc + 1))
        return c13.SymLines.locate_answer(self, source_lines)

    def run(self, ex):
        from sea.symstr import JoinedLines
        self.calls = self.nloc = self.nextract = 0
        self.raised_count = 0
        self.consumed_lines = []
        ex.assume(z3.And([z3.And(z3.Int('mode_hint_%d' % j) >= 0, z3.Int('mode_hint_%d' % j) <= 2) for j in range(1, self.K + 1)]))
        P = self.parser.DoctestParser()
        try:
            P.parse(JoinedLines(self.lines))
            ex.witness('parsed', True)
            return {'only_the_parse_error_escapes': z3.BoolVal(True)}
        except self.exceptions.DoctestParseError:
            if self.raised_count:
                ex.witness('oracle_raised_and_contained', True)
            return {'only_the_parse_error_escapes': z3.BoolVal(True)}
        except Exception as e:
            self.last_error = '%s: %s' % (type(e).__name__, e)
            return {'only_the_parse_error_escapes': z3.BoolVal(False)}

    def describe(self, model):
        d = c13.SymLines.describe(self, model)
        d['harness'] = 'contains'
        d['raised'] = sorted(str(x) for x in model.decls() if str(x).startswith('raises_') and z3.is_true(model[x]))
        d['which'] = {str(x): RAISES[model[x].as_long()] for x in model.decls() if str(x).startswith('which_') and 0 <= model[x].as_long() < len(RAISES)}
        return d


KINDS = ['fine', 'no_example', 'syntax_braces', 'syntax_offset0', 'syntax_notext', 'other_error', 'malformed_google']


class Collection(Harness):
    witnesses = ('bad_between_good', 'all_bad', 'syntax_text_with_braces')

    def __init__(self, job):
        instrumented()
        from xdoctest import core, parser, exceptions, static_analysis
        self.core, self.parser, self.exceptions, self.static = core, parser, exceptions, static_analysis
        self.job = job
        M = self.M = job['m']
        self.kind = [z3.Int('docstring%d' % i) for i in range(M)]
        self.style = z3.Int('style')
        self.base = [self.style >= 0, self.style <= 2]
        for i in range(M):
            self.base += [self.kind[i] >= 0, self.kind[i] < len(KINDS)]
        from sea import instrument
        instrument.RT.STUBS['print'] = lambda *a, **k: None
        self.stubs = ['DoctestParser.parse -> raises the symbolic parse failure for the marked docstrings (what makes a docstring malformed is C14.parse_contains)',
                      'core.package_calldefs -> the symbolic list of docstrings']

    def run(self, ex):
        import warnings
        from sea.core import SymInt
        core, exceptions = self.core, self.exceptions
        kinds = [KINDS[int(SymInt(v))] for v in self.kind]
        style = ['auto', 'google', 'freeform'][int(SymInt(self.style))]
        calldefs = {}
        for i, k in enumerate(kinds):
            if k == 'no_example':
                doc = 'just prose %d\n' % i
            elif k == 'malformed_google' and style != 'freeform':
                doc = 'Example:\n    >>> BAD%d\n' % i
            else:
                doc = 'Example:\n    >>> %s%d = 1\n' % ('BAD' if k not in ('fine',) else 'ok', i)
            calldefs['f%d' % i] = self.static.CallDefNode('f%d' % i, 10 * (i + 1), doc, 10 * (i + 1) + 1, 10 * (i + 1) + 3)
        real_parse = self.parser.DoctestParser.parse

        def parse(self_, string, info=None):
            if 'BAD' in string:
                idx = int(string.split('BAD')[1].split()[0].split('=')[0])
                k = kinds[idx]
                if k == 'syntax_braces':
                    orig = SyntaxError('invalid syntax', ('<doc>', 1, 5, 'd = {"a" 1} % {0}\n'))
                elif k == 'syntax_offset0':
                    orig = SyntaxError('invalid syntax', ('<doc>', 1, 0, 'x y\n'))
                elif k == 'syntax_notext':
                    orig = SyntaxError('unexpected EOF')
                elif k == 'malformed_google':
                    raise exceptions.MalformedDocstr('bad google block')
                else:
                    orig = RuntimeError('boom {0} {x}')
                raise exceptions.DoctestParseError('Failed to parse doctest in _label_docsrc_lines', string=string, info=info, orig_ex=orig)
            return real_parse(self_, string, info)
        self.parser.DoctestParser.parse = parse
        core.package_calldefs = lambda *a, **k: iter([(calldefs, core.__file__)])
        got = None
        with warnings.catch_warnings(record=True) as wl:
            warnings.simplefilter('always')
            try:
                got = [e.callname for e in core.parse_doctestables(core.__file__, style=style)]
            except Exception as e:
                self.last_error = '%s: %s' % (type(e).__name__, e)
            finally:
                self.parser.DoctestParser.parse = real_parse
        if got is None:
            return {'collection_survives': z3.BoolVal(False)}
        bad = [i for i, k in enumerate(kinds) if k not in ('fine', 'no_example')]
        exp = ['f%d' % i for i, k in enumerate(kinds) if k == 'fine']
        props = {'good_docstrings_still_collected_in_order': z3.BoolVal(got == exp),
                 'one_warning_per_bad_docstring': z3.BoolVal(len(wl) >= len(bad) and all(any('f%d' % i in str(w.message) for w in wl) for i in bad))}
        if bad and exp and bad[0] < int(exp[-1][1:]) and any(int(e[1:]) < bad[0] for e in exp):
            ex.witness('bad_between_good', True)
        if len(bad) == self.M:
            ex.witness('all_bad', True)
        if 'syntax_braces' in kinds:
            ex.witness('syntax_text_with_braces', True)
        return props

    def describe(self, model):
        def n(v):
            return model.eval(v, model_completion=True).as_long()
        return {'harness': 'coll', 'kinds': [KINDS[n(v)] for v in self.kind], 'style': ['auto', 'google', 'freeform'][n(self.style)]}


FORMS = ['freeform text', 'one google block', 'malformed google block, then a valid block', 'valid google block, then the malformed block']


def real_malformed_problems(parser, exceptions, core, lines, style, form):
    """the fragments as a docstring in one of FORMS, through the real parser and the real extraction.
    -> (problems, facts).  Malformed means: DoctestParser.parse raises its parse error on the text it is given, either
    directly on the whole docstring (what freeform extraction parses) or on a block during the extraction."""
    import warnings
    doc = '\n'.join(lines)
    block = 'Example:\n' + '\n'.join('    ' + l for l in lines) + '\n'
    good = 'Example:\n    >>> ok = 1\n'
    text = [doc + '\n', block, block + '\n' + good, good + '\n' + block][form]
    bad, facts = [], {}
    try:
        parser.DoctestParser().parse(doc)
        facts['direct'] = 'parsed'
    except exceptions.DoctestParseError:
        facts['direct'] = 'parse_error'
    except Exception as e:
        facts['direct'] = 'other'
        bad.append('DoctestParser.parse raises %s: %s' % (type(e).__name__, e))
    whole_malformed = False
    try:
        parser.DoctestParser().parse(text)
    except exceptions.DoctestParseError:
        whole_malformed = True
    except Exception:
        pass
    real_parse = parser.DoctestParser.parse
    inside = []

    def spy(self_, string, info=None):
        try:
            return real_parse(self_, string, info)
        except exceptions.DoctestParseError:
            inside.append(string)
            raise
    parser.DoctestParser.parse = spy
    got = None
    with warnings.catch_warnings(record=True) as wl:
        warnings.simplefilter('always')
        try:
            got = list(core.parse_docstr_examples(text, callname='f', modpath=None, fpath='m.txt', lineno=1, style=style))
        except Exception as e:
            bad.append('extracting examples raises %s: %s' % (type(e).__name__, e))
        finally:
            parser.DoctestParser.parse = real_parse
    facts['raised_inside'] = bool(inside)
    if got is not None:
        reaches_whole = style == 'freeform' or (style == 'auto' and form == 0)
        if inside or (reaches_whole and whole_malformed):
            if got:
                bad.append('malformed docstring yields %d example(s)' % len(got))
            if not wl:
                bad.append('malformed docstring gives no warning')
    return bad, facts


class RealMalformed(Harness):
    witnesses = ('parse_error', 'parsed', 'malformed_block_next_to_a_valid_one', 'bare_prompt_malformed')

    def __init__(self, job):
        instrumented()
        from xdoctest import parser, exceptions, core
        self.parser, self.exceptions, self.core = parser, exceptions, core
        self.job = job
        K = self.K = job['k']
        self.tok = [z3.Int('fragment%d' % i) for i in range(K)]
        self.style = z3.Int('style')
        self.form = z3.Int('docstring_form')
        self.base = [self.style >= 0, self.style <= 2, self.form >= 0, self.form < len(FORMS)]
        for i in range(K):
            self.base += [self.tok[i] >= 0, self.tok[i] < len(NASTY)]
        from sea import instrument
        instrument.RT.STUBS['print'] = lambda *a, **k: None

    def run(self, ex):
        from sea.core import SymInt
        lines = [NASTY[int(SymInt(v))] for v in self.tok]
        style = ['auto', 'google', 'freeform'][int(SymInt(self.style))]
        form = int(SymInt(self.form))
        bad, facts = real_malformed_problems(self.parser, self.exceptions, self.core, lines, style, form)
        self.last_error = bad
        if facts.get('direct') == 'parsed':
            ex.witness('parsed', True)
        if facts.get('direct') == 'parse_error':
            ex.witness('parse_error', True)
        if facts.get('raised_inside') and form >= 2 and not bad:
            ex.witness('malformed_block_next_to_a_valid_one', True)
        if lines[0] == '>>>' and facts.get('direct') == 'parse_error':
            ex.witness('bare_prompt_malformed', True)
        return {'contained_warned_and_no_example': z3.BoolVal(not bad)}

    def describe(self, model):
        def n(v):
            return model.eval(v, model_completion=True).as_long()
        return {'harness': 'real', 'lines': [NASTY[n(v)] for v in self.tok], 'style': ['auto', 'google', 'freeform'][n(self.style)], 'form': n(self.form)}


def build(job):
    return {'sym': Contains, 'coll': Collection, 'real': RealMalformed}[job['harness']](job)


# ---------------------------------------------------------------- replay

def replay(job, cex):
    import warnings
    from xdoctest import parser, exceptions, core
    h = cex.get('harness')
    if h == 'real':
        import io
        import contextlib
        with contextlib.redirect_stdout(io.StringIO()):
            bad, facts = real_malformed_problems(parser, exceptions, core, cex['lines'], cex['style'], cex.get('form', 1))
        return {'reproduced': bool(bad), 'detail': 'fragments %r as %s, style %s: %s' % (cex['lines'], FORMS[cex.get('form', 1)], cex['style'], bad),
                'signature': 'C14:real:' + ';'.join(b.split(' raises')[0][:40] for b in bad)}
    if h == 'coll':
        # realise the malformed docstrings with real syntax errors in a real module
        import os
        import shutil
        import tempfile
        d = tempfile.mkdtemp(prefix='xdv-c14-')
        try:
            body = {'fine': '>>> ok = 1', 'no_example': 'just prose', 'syntax_braces': '>>> d = {"a" 1} % {0}', 'syntax_offset0': '>>> x y',
                    'syntax_notext': '>>> x = (', 'other_error': '>>> y = 1  # xdoctest: +REQUIRES(module:os))', 'malformed_google': '>>> x = ('}
            src = ''
            for i, k in enumerate(cex['kinds']):
                if k == 'no_example':
                    src += 'def f%d():\n    """\n    just prose %d\n    """\n\n' % (i, i)      # as in the harness: no example block at all
                    continue
                src += 'def f%d():\n    """\n    Example:\n        %s\n    """\n\n' % (i, body[k])
            path = os.path.join(d, 'm_c14_replay.py')
            with open(path, 'w') as f:
                f.write(src)
            with warnings.catch_warnings(record=True):
                warnings.simplefilter('always')
                try:
                    import io
                    import contextlib
                    with contextlib.redirect_stdout(io.StringIO()):
                        got = [e.callname for e in core.parse_doctestables(path, style=cex['style'])]
                except Exception as e:
                    return {'reproduced': True, 'detail': 'collection of %r raised %s: %s' % (src, type(e).__name__, e),
                            'signature': 'C14:collection-crashes:' + type(e).__name__}
            exp = ['f%d' % i for i, k in enumerate(cex['kinds']) if k == 'fine']
            return {'reproduced': got != exp, 'detail': 'module %r: collected %r expected %r' % (src, got, exp), 'signature': 'C14:collection-differs'}
        finally:
            shutil.rmtree(d, ignore_errors=True)
    # symbolic oracle counterexample: realise the raising component with a patched tokenizer answer
    from xdoctest import static_analysis as static, directive
    which = cex.get('which', {})
    raised = cex.get('raised', [])
    if not raised:
        return {'reproduced': False, 'abstract': True, 'detail': 'no raising oracle in the counterexample'}
    tag = raised[0][len('raises_'):]
    exc = make_exc(which.get('which_' + tag, 'ValueError'))
    site = tag.split('_')[0]
    doc = '\n'.join(cex['lines'])
    orig = (static.is_balanced_statement, parser.DoctestParser._locate_ps1_linenos, directive.Directive.extract)

    def boom(*a, **k):
        raise exc
    try:
        if site == 'balance':
            static.is_balanced_statement = boom
        elif site == 'locate':
            parser.DoctestParser._locate_ps1_linenos = boom
        else:
            directive.Directive.extract = classmethod(lambda cls, text: boom())
        try:
            parser.DoctestParser().parse(doc if '>>>' in doc else '>>> x = 1\n' + doc)
            return {'reproduced': False, 'abstract': True, 'detail': 'the raising component was not reached for %r' % doc}
        except exceptions.DoctestParseError:
            return {'reproduced': False, 'detail': 'contained'}
        except Exception as e:
            return {'reproduced': True, 'detail': 'parse(%r) lets %s escape when %s raises it' % (doc, type(e).__name__, site),
                    'signature': 'C14:escapes:%s:%s' % (site, type(e).__name__)}
    finally:
        static.is_balanced_statement, parser.DoctestParser._locate_ps1_linenos, directive.Directive.extract = orig
