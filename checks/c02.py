"""C02 - got/want verdicts are exact.

Real code executed symbolically: DocTest.run (whole part loop), _post_run,
anything_ran, DoctestPart.check / has_any_code / want, checker.check_got_vs_want,
checker.check_output (its `not want` and `got == want` shortcuts stay).
The match relation behind check_output is an UNINTERPRETED relation M
(variant 'uf': the verdict logic is right for every match relation, hence for
the real one under every flag setting) or plain equality (variant 'eq': every
counterexample is realisable with print statements and replayed end to end).
"""
import z3
from .common import Harness, zbool
from . import hrun

PROPERTY = 'C02'
BOUNDS = {
    'quick': 'k<=3 parts; per part symbolic: has-code, has-want, eval/exec mode, stdout text (<=2 chars), want text (1..3 chars), repr text (<=2 chars); match relation uninterpreted (uf) and equality (eq)',
    'thorough': 'k<=4 parts (eq strings <=2/3, uf strings <=1/2) and k=3 with strings <=3/4 (uf)',
}
OUTSIDE = 'how the parser attaches wants to statements (C13/C01); what the match relation is (C05/C06); directives (C04); exceptions (C03)'
ASSUMPTIONS = ['a part list as produced by the parser: want_lines of a part are non-empty strings',
               'variant uf: normalize+_check_match abstracted to an uninterpreted relation M(got, want)',
               'when a value was evaluated and the captured stdout is empty, the want is compared with the value only (REPL semantics; the statement is silent here)',
               'a want may also equal the printed text followed by the repr of the value (what the interactive interpreter shows; accepted since fix 936bcfa)']


def jobs(tier):
    out = []
    if tier == 'quick':
        cfgs = [('uf', 3, 2, 3), ('eq', 3, 2, 3), ('uf', 2, 3, 3)]
    else:
        cfgs = [('uf', 4, 1, 2), ('eq', 4, 2, 3), ('uf', 3, 3, 4)]
    for variant, k, ocap, wcap in cfgs:
        out.append({'ob': 'verdict_%s_k%d' % (variant, k), 'variant': variant, 'k': k, 'ocap': ocap, 'wcap': wcap,
                    'bounds': 'k=%d parts, |stdout|,|repr|<=%d, |want|<=%d, match=%s' % (k, ocap, wcap, variant),
                    'split_depth': 6 if k >= 4 else None, 'query_timeout_s': 120})
    out.append({'ob': 'flags_reach_every_comparison', 'harness': 'flags', 'query_timeout_s': 60,
                'bounds': 'check_got_vs_want on %d printed texts x %d values x %d wants x ELLIPSIS x NORMALIZE_WHITESPACE (concrete menus, real check_output as the comparison)' % (len(G_STDOUT), len(G_VALUE), len(G_WANT))})
    return out


class Verdict(Harness):
    witnesses = ('fail_after_pending_output', 'pass_needs_two_outputs', 'pass_only_via_repr', 'all_skipped', 'ignored_want_closes_the_window',
                 'repr_raises_fails', 'repr_raises_but_stdout_matches')

    def __init__(self, job):
        self.m = hrun.install()
        from sea.symstr import SymStr
        self.job = job
        K = self.K = job['k']
        if K < 3:
            self.witnesses = tuple(w for w in self.witnesses if w != 'ignored_want_closes_the_window')
        oc, wc = job['ocap'], job['wcap']
        alph = 'ab' if job['variant'] == 'eq' else None
        self.base = []
        self.outs, self.wants, self.reprs, self.strs = [], [], [], []
        for i in range(K):
            o, c = SymStr.fresh('o%d' % i, oc, alph)
            self.base += c
            self.outs.append(o)
            w, c = SymStr.fresh('w%d' % i, wc, alph, minlen=1)
            self.base += c
            self.wants.append(w)
            r, c = SymStr.fresh('r%d' % i, oc, alph, minlen=1)
            self.base += c
            self.reprs.append(r)
            s_, c = SymStr.fresh('s%d' % i, oc, alph, minlen=1)
            self.base += c
            self.strs.append(s_)
        self.hascode = [z3.Bool('hascode%d' % i) for i in range(K)]
        self.haswant = [z3.Bool('haswant%d' % i) for i in range(K)]
        self.evaled = [z3.Bool('eval%d' % i) for i in range(K)]
        self.reprraises = [z3.Bool('repr_raises%d' % i) for i in range(K)]
        self.ignorewant = [z3.Bool('inline_ignore_want%d' % i) for i in range(K)]
        if job['variant'] == 'uf':
            self.M = hrun.MatchUF((K + 1) * oc, wc)
            self.M.install(self.m['checker'])
            self.stubs = hrun.STUB_NOTES + ['checker.normalize -> identity, checker._check_match -> uninterpreted relation M']
        else:
            self.M = None
            self.m['checker'].normalize = lambda g, w, rs=None: (g, w)
            self.m['checker']._check_match = lambda g, w, rs: (g == w)
            self.stubs = hrun.STUB_NOTES + ['checker.normalize -> identity, checker._check_match -> equality (alphabet {a,b}: all real normalisations are the identity there)']

    def CO(self, got, want):
        e = zbool(got == want)
        if self.M is None:
            return e
        return z3.Or(e, self.M.z(got, want))

    def run(self, ex):
        from sea.core import SymBool
        m = self.m
        E = hrun.ENV
        E.reset()
        K = self.K
        parts, cfg = [], []
        for i in range(K):
            hc = bool(SymBool(self.hascode[i]))
            hw = bool(SymBool(self.haswant[i]))
            ev = bool(SymBool(self.evaled[i])) if (hw and hc) else False
            rr = bool(SymBool(self.reprraises[i])) if ev else False
            iw = bool(SymBool(self.ignorewant[i])) if hw else False
            src = ('x = 1 #%d#' if hc else '# nothing to run #%d#') % i
            dirs = [m['directive'].Directive('IGNORE_WANT', True, [], True)] if iw else []
            p = m['doctest_part'].DoctestPart([src], want_lines=[self.wants[i]] if hw else None,
                                              line_offset=i, orig_lines=['>>> ' + src], directives=dirs)
            if ev:
                p.compile_mode = 'eval'
            parts.append(p)
            cfg.append((hc, hw, ev, rr, iw))

            def beh(code, glb, i=i, ev=ev, rr=rr):
                E.cap.write(self.outs[i])
                return hrun.Value(self.reprs[i], s=self.strs[i], repr_raises=rr) if ev else None
            E.behaviour[i] = beh
        dt = m['doctest_example'].DocTest('', None, 'f', 0, 1, mode='native')
        dt._parts = parts
        try:
            summ = dt.run(verbose=0, on_error='return')
        except Exception as e:
            return {'run_returns_a_summary': z3.BoolVal(False)}
        trace = list(E.trace)

        # ---------------- declarative oracle over the same symbolic inputs
        pending = []
        conds = []      # z3: part i does not fail
        runnable = []
        multi, viarepr = [], []
        for i, (hc, hw, ev, rr, iw) in enumerate(cfg):
            if not hc:
                conds.append(z3.BoolVal(True))
                continue
            runnable.append(i)
            if hw:
                flags = []
                for t in range(1, len(pending) + 2):
                    got = hrun.cat(pending[len(pending) + 1 - t:] + [self.outs[i]])
                    if not ev:
                        flags.append(self.CO(got, self.wants[i]))
                    else:
                        empty = zbool(got == '')
                        # a value whose repr raises can only satisfy the want through stdout
                        cr = z3.BoolVal(False) if rr else self.CO(self.reprs[i], self.wants[i])
                        # like the interactive interpreter: the echoed value may also follow what was printed
                        both = z3.BoolVal(False) if rr else self.CO(got + self.reprs[i], self.wants[i])
                        flags.append(z3.If(empty, cr, z3.Or(self.CO(got, self.wants[i]), cr, both)))
                # a want under an inline IGNORE_WANT is not compared, but it still closes the window of pending output
                conds.append(z3.BoolVal(True) if iw else z3.Or(flags))
                if len(flags) >= 2:
                    multi.append(z3.And(z3.Not(flags[0]), flags[1]))
                if ev and not rr:
                    viarepr.append(z3.And(self.CO(self.reprs[i], self.wants[i]),
                                          z3.Not(self.CO(self.outs[i], self.wants[i])), zbool(self.outs[i] != '')))
                pending = []
            else:
                conds.append(z3.BoolVal(True))
                pending.append(self.outs[i])
        GW = m['checker'].GotWantException
        EGR = m['checker'].ExtractGotReprException
        props = {}
        terms = []
        for f in range(K + 1):
            pre = z3.And([conds[j] for j in range(min(f, K))] + ([z3.Not(conds[f])] if f < K else []))
            if f < K:
                exp_trace = [i for i in runnable if i <= f]
                ok = (summ['failed'] is True and summ['passed'] is False and summ['skipped'] is False
                      and trace == exp_trace and dt.failed_part is parts[f]
                      and summ['exc_info'] is not None and
                      (isinstance(summ['exc_info'][1], GW) or (cfg[f][3] and isinstance(summ['exc_info'][1], EGR))))
            else:
                exp_trace = list(runnable)
                nothing = len(runnable) == 0
                ok = (summ['failed'] is False and summ['exc_info'] is None and trace == exp_trace
                      and summ['skipped'] is nothing and summ['passed'] is (not nothing)
                      and dt.failed_part is None)
            terms.append(z3.Implies(pre, z3.BoolVal(bool(ok))))
        props['verdict_trace_summary'] = z3.And(terms)
        # exactly one of passed / failed / skipped
        props['one_outcome'] = z3.BoolVal([summ['passed'], summ['failed'], summ['skipped']].count(True) == 1)
        # captured stdout is attributed to the part that wrote it
        log_ok = []
        for i in trace:
            got = dt.logged_stdout.get(i)
            log_ok.append(zbool(got == self.outs[i]) if got is not None else z3.BoolVal(False))
        props['logged_stdout'] = z3.And(log_ok + [z3.BoolVal(set(dt.logged_stdout.keys()) == set(trace))])
        # every exec/eval saw the one namespace object of this doctest
        props['one_namespace'] = z3.BoolVal(all(g is dt.global_namespace for g in E.globs))

        if summ['failed'] and trace and cfg[trace[-1]][3]:
            ex.witness('repr_raises_fails', zbool(self.outs[trace[-1]] != ''))
        if not summ['failed'] and any(c[3] for c in cfg):
            ex.witness('repr_raises_but_stdout_matches', True)
        if summ['failed'] and len(trace) >= 2 and any(not cfg[i][1] for i in trace[:-1]):
            ex.witness('fail_after_pending_output', zbool(self.outs[trace[0]] != ''))
        if multi:
            ex.witness('pass_needs_two_outputs', z3.And(z3.Or(multi), z3.BoolVal(not summ['failed'])))
        if viarepr:
            ex.witness('pass_only_via_repr', z3.And(z3.Or(viarepr), z3.BoolVal(not summ['failed'])))
        if not runnable:
            ex.witness('all_skipped', True)
        for i, c in enumerate(cfg):
            if c[4] and any(not cfg[j][1] and cfg[j][0] for j in range(i)) and any(cfg[j][1] and cfg[j][0] for j in range(i + 1, K)):
                ex.witness('ignored_want_closes_the_window', True)
        return props

    def describe(self, model):
        def b(v):
            return z3.is_true(model.eval(v, model_completion=True))
        parts = []
        for i in range(self.K):
            parts.append({'has_code': b(self.hascode[i]), 'has_want': b(self.haswant[i]),
                          'eval': b(self.evaled[i]) and b(self.haswant[i]) and b(self.hascode[i]),
                          'stdout': self.outs[i].concrete(model), 'want': self.wants[i].concrete(model),
                          'repr': self.reprs[i].concrete(model), 'str': self.strs[i].concrete(model),
                          'repr_raises': b(self.reprraises[i]) and b(self.evaled[i]) and b(self.haswant[i]) and b(self.hascode[i]),
                          'ignore_want': b(self.ignorewant[i]) and b(self.haswant[i]) and b(self.hascode[i])})
        return {'variant': self.job['variant'], 'parts': parts}


# ---------------------------------------------------------------- the active flags reach every comparison (kind III)

G_STDOUT = ['', 'x\n', 'a7b\n', 'a  b\n']
G_VALUE = ['<not evaluated>', 'a7b', 'a  b', 'x']           # reprs of the value (the first: the statement was executed, not evaluated)
G_WANT = ['a...b', 'a7b', 'x\na...b', 'x\na7b', 'a b', 'x']
G_FLAGS = ['ELLIPSIS', 'NORMALIZE_WHITESPACE']


class _Val:
    def __init__(self, r):
        self.r = r

    def __repr__(self):
        return self.r


def flags_problems(checker, directive, constants, c):
    """check_got_vs_want against its documented rule: the want may match the printed text, the value's repr, or the
    printed text followed by the repr - each comparison made by check_output UNDER THE GIVEN runtime state."""
    state = {f: bool(c['flags'][i]) for i, f in enumerate(G_FLAGS)}
    rs = directive.RuntimeState(dict(state))
    so = G_STDOUT[c['stdout']]
    want = G_WANT[c['want']]
    has_value = c['value'] != 0
    val = _Val(G_VALUE[c['value']]) if has_value else constants.NOT_EVALED
    cands = [so]
    if has_value:
        r = G_VALUE[c['value']]
        cands = [r] if not so else [so, r, so + r]
    exp = any(checker.check_output(g, want, directive.RuntimeState(dict(state))) for g in cands)
    try:
        got = bool(checker.check_got_vs_want(want, so, val, rs))
    except checker.GotWantException:
        got = False
    except Exception as e:
        return ['check_got_vs_want raises %s: %s' % (type(e).__name__, e)]
    if got != exp:
        return ['stdout %r value %s want %r under %r: accepted=%r, but the candidates %r %s under these flags' % (
            so, G_VALUE[c['value']], want, state, got, cands, 'match' if exp else 'do not match')]
    return []


class Flags(Harness):
    witnesses = ('matches_only_with_ellipsis', 'fallback_to_the_value', 'printed_then_value')

    def __init__(self, job):
        from .common import instrumented
        instrumented()
        from xdoctest import checker, directive, constants
        self.mods = (checker, directive, constants)
        self.job = job
        self.so, self.val, self.want = z3.Int('stdout'), z3.Int('value'), z3.Int('want')
        self.flags = [z3.Bool(f) for f in G_FLAGS]
        self.base = [self.so >= 0, self.so < len(G_STDOUT), self.val >= 0, self.val < len(G_VALUE), self.want >= 0, self.want < len(G_WANT)]

    def case(self, n, b):
        return {'harness': 'flags', 'stdout': n(self.so), 'value': n(self.val), 'want': n(self.want), 'flags': [b(f) for f in self.flags]}

    def run(self, ex):
        from sea.core import SymBool, SymInt
        c = self.case(lambda v: int(SymInt(v)), lambda v: bool(SymBool(v)))
        bad = flags_problems(*self.mods, c)
        self.last_error = bad
        if not bad:
            checker, directive, constants = self.mods
            if G_WANT[c['want']] == 'a...b' and c['stdout'] == 2 and c['value'] == 0:
                ex.witness('matches_only_with_ellipsis', True)
            if c['stdout'] == 1 and c['value'] == 1 and G_WANT[c['want']] == 'a...b' and not c['flags'][0]:
                ex.witness('fallback_to_the_value', True)
            if c['stdout'] == 1 and c['value'] == 1 and G_WANT[c['want']] == 'x\na7b':
                ex.witness('printed_then_value', True)
        return {'every_comparison_uses_the_active_flags': z3.BoolVal(not bad)}

    def describe(self, model):
        return self.case(lambda v: model.eval(v, model_completion=True).as_long(), lambda v: z3.is_true(model.eval(v, model_completion=True)))


def build(job):
    if job.get('harness') == 'flags':
        return Flags(job)
    return Verdict(job)


# ---------------------------------------------------------------- replay

def reference(parts):
    """python reference of the verdict rule with equality as match relation"""
    pending, trace = [], []
    for i, p in enumerate(parts):
        if not p['has_code']:
            continue
        trace.append(i)
        if p['has_want'] and p.get('ignore_want'):
            pending = []
            continue
        if p['has_want']:
            ok = False
            outs = pending + [p['stdout']]
            for t in range(1, len(outs) + 1):
                got = ''.join(outs[-t:])
                if p['eval']:
                    viarepr = (not p.get('repr_raises')) and p['repr'] == p['want']
                    both = (not p.get('repr_raises')) and (got + p['repr']) == p['want']
                    ok = ok or (viarepr if got == '' else (got == p['want'] or viarepr or both))
                else:
                    ok = ok or got == p['want']
            if not ok:
                return {'failed': True, 'trace': trace, 'failed_part': i}
            pending = []
        else:
            pending.append(p['stdout'])
    return {'failed': False, 'trace': trace, 'failed_part': None, 'skipped': not trace}


def real_run(parts):
    from xdoctest import doctest_example, doctest_part
    strict = {'ELLIPSIS': False, 'NORMALIZE_WHITESPACE': False, 'IGNORE_WHITESPACE': False,
              'NORMALIZE_REPR': False, 'DONT_ACCEPT_BLANKLINE': True}
    dt = doctest_example.DocTest('', None, 'f', 0, 1, mode='native')
    dt.config['default_runtime_state'] = strict
    TRACE = []
    real_parts = []
    for i, p in enumerate(parts):
        if not p['has_code']:
            src = '# nothing to run'
        elif p['eval']:
            src = '__f(%d, %r, %r, %r, %r)' % (i, p['stdout'], p['repr'], p.get('str', p['repr']), bool(p.get('repr_raises')))
        else:
            src = '__g(%d, %r)' % (i, p['stdout'])
        from xdoctest import directive as _dir
        rp = doctest_part.DoctestPart([src], want_lines=p['want'].split('\n') if p['has_want'] else None,
                                      line_offset=i, orig_lines=['>>> ' + src],
                                      directives=[_dir.Directive('IGNORE_WANT', True, [], True)] if p.get('ignore_want') else [])
        if p['eval']:
            rp.compile_mode = 'eval'
        real_parts.append(rp)
    dt._parts = real_parts

    class V:
        def __init__(self, r, s, rr=False):
            self.r = r
            self.s = s
            self.rr = rr

        def __repr__(self):
            if self.rr:
                raise RuntimeError('repr failed')
            return self.r

        def __str__(self):
            return self.s

    def f(i, o, r, s, rr=False):
        import sys
        TRACE.append(i)
        sys.stdout.write(o)
        return V(r, s, rr)

    def g(i, o):
        import sys
        TRACE.append(i)
        sys.stdout.write(o)
    dt.global_namespace.update(__f=f, __g=g)
    try:
        summ = dt.run(verbose=0, on_error='return')
    except Exception as e:
        return {'escaped': '%s: %s' % (type(e).__name__, e), 'trace': TRACE, 'failed': None, 'passed': None, 'skipped': None,
                'failed_part': None, 'exc': None, 'logged': {}}
    fp = real_parts.index(dt.failed_part) if dt.failed_part in real_parts else None
    return {'failed': summ['failed'], 'passed': summ['passed'], 'skipped': summ['skipped'], 'trace': TRACE,
            'failed_part': fp, 'exc': type(summ['exc_info'][1]).__name__ if summ['exc_info'] else None,
            'logged': {str(k): v for k, v in dt.logged_stdout.items()}}


def replay(job, cex):
    if cex.get('harness') == 'flags':
        from xdoctest import checker, directive, constants
        bad = flags_problems(checker, directive, constants, cex)
        return {'reproduced': bool(bad), 'detail': '; '.join(bad), 'signature': 'C02:flags'}
    if cex.get('variant') != 'eq':
        return {'reproduced': False, 'abstract': True,
                'detail': 'counterexample for an arbitrary match relation; not realisable without fixing M (see the eq variant)'}
    parts = cex['parts']
    if any('\n' in p['want'] for p in parts):
        return {'reproduced': False, 'abstract': True, 'detail': 'newline in want'}
    exp = reference(parts)
    real = real_run(parts)
    bad = []
    if real.get('escaped'):
        return {'reproduced': True, 'detail': 'DocTest.run(on_error="return") raised %s for parts %r' % (real['escaped'], parts),
                'signature': 'C02:escaped:' + real['escaped'].split(':')[0]}
    if real['failed'] != exp['failed']:
        bad.append('failed flag')
    if real['trace'] != exp['trace']:
        bad.append('trace')
    if exp['failed'] and real['failed_part'] != exp['failed_part']:
        bad.append('failed_part')
    rrf = exp['failed'] and parts[exp['failed_part']].get('repr_raises')
    if exp['failed'] and real['exc'] != 'GotWantException' and not (rrf and real['exc'] == 'ExtractGotReprException'):
        bad.append('exception type')
    if not exp['failed'] and (real['skipped'] != exp['skipped'] or real['passed'] == exp['skipped']):
        bad.append('passed/skipped')
    if [real['passed'], real['failed'], real['skipped']].count(True) != 1:
        bad.append('not exactly one outcome')
    for i in real['trace']:
        if real['logged'].get(str(i)) != parts[i]['stdout']:
            bad.append('logged_stdout[%d]' % i)
    return {'reproduced': bool(bad), 'detail': 'differs in %s: expected %r, real %r' % (bad, exp, real),
            'signature': 'C02:' + ','.join(sorted(set(bad)))}
