"""C06 - ellipsis is a true wildcard.

Real code executed symbolically: checker._check_match, checker._ellipsis_match
(including its re.split on the pattern text found in the source).
Oracle: a declarative wildcard dynamic programme over the same symbolic
strings (no greedy search, no pieces)."""
from .common import Harness, instrumented, zbool, mkstate

PROPERTY = 'C06'
BOUNDS = {
    'quick': 'all ASCII 1..127 strings: (|got|<=4,|want|<=9) and (|got|<=6,|want|<=8); ELLIPSIS flag symbolic',
    'thorough': 'all ASCII 1..127 strings: (|got|<=8,|want|<=12), (|got|<=4,|want|<=16), (|got|<=10,|want|<=10); ELLIPSIS flag symbolic',
}
OUTSIDE = 'non-ASCII text; strings longer than the bounds; normalisation before matching is C05'
ASSUMPTIONS = ['characters are ASCII 1..127 (NUL is the padding character of the bounded string model)',
               'regex semantics of re.split are the validated bounded model (sea/symre.py), generated from the pattern in the source']

WS = ' \t\n\r\x0b\x0c\x1c\x1d\x1e\x1f'


def jobs(tier):
    if tier == 'quick':
        caps = [(4, 9), (6, 8)]
    else:
        caps = [(8, 12), (4, 16), (10, 10)]
    out = []
    for g, w in caps:
        out.append({'ob': 'match_vs_wildcard_dp', 'gcap': g, 'wcap': w,
                    'bounds': '|got|<=%d |want|<=%d ASCII' % (g, w),
                    'query_timeout_s': 120 if tier == 'quick' else 900})
    g, w = (6, 8) if tier == 'quick' else (10, 12)
    out.append({'ob': 'ellipsis_off_is_equality', 'gcap': g, 'wcap': w, 'query_timeout_s': 300 if tier == 'quick' else 1200,
                'bounds': 'ASCII |got|,|norm got|<=%d |want|,|norm want|<=%d, three other flags symbolic' % (g, w)})
    return out


def validation_jobs(tier):
    return [{'ob': 'validate_split_model', 'maxlen': 6 if tier == 'quick' else 7}]


def wildcard_spec(got, want):
    """z3 Bool: want (with maximal \\s*...\\s* tokens as wildcards) matches got."""
    import z3
    from sea.symstr import C
    m, n = want.cap, got.cap
    wn, gn = want.nz(), got.nz()
    isws = [z3.And(i < wn, z3.Or([want.cs[i] == C(c) for c in WS])) for i in range(m)] + [z3.BoolVal(False)]
    dot = [z3.And(i < wn, want.cs[i] == C('.')) for i in range(m)] + [z3.BoolVal(False)] * 3
    dot3 = [z3.And(dot[i], dot[i + 1], dot[i + 2]) for i in range(m + 1)]
    # L[i]: a wildcard token starts at i (optional whitespace, then three dots)
    L = [None] * (m + 1)
    L[m] = z3.BoolVal(False)
    for i in reversed(range(m)):
        L[i] = z3.Or(dot3[i], z3.And(isws[i], L[i + 1]))
    # skip[x]: first non-whitespace position >= x
    skip = [None] * (m + 2)
    skip[m + 1] = z3.IntVal(m + 1)
    skip[m] = z3.IntVal(m)
    for x in reversed(range(m)):
        skip[x] = z3.If(isws[x], skip[x + 1], z3.IntVal(x))

    def skip_at(idx):
        r = z3.IntVal(m)
        for k in reversed(range(m + 1)):
            r = z3.If(idx == k, skip[k], r)
        return r
    # e[i]: end of the token that starts at i (ws* dots ws*)
    e = [skip_at(skip[i] + 3) for i in range(m)]
    T = [[None] * (n + 2) for _ in range(m + 1)]
    for i in reversed(range(m + 1)):
        for j in reversed(range(n + 1)):
            if i == m:
                T[i][j] = (z3.IntVal(j) == gn)
                continue
            end_w = z3.IntVal(i) >= wn
            lit = z3.And(j < gn, got.cs[j] == want.cs[i], T[i + 1][j + 1]) if j < n else z3.BoolVal(False)
            wc_terms = []
            for i2 in range(i + 1, m + 1):
                anyj = z3.Or([z3.And(j2 <= gn, T[i2][j2]) for j2 in range(j, n + 1)])
                wc_terms.append(z3.And(e[i] == i2, anyj))
            wc = z3.Or(wc_terms)
            T[i][j] = z3.If(end_w, z3.IntVal(j) == gn, z3.If(L[i], wc, lit))
        T[i][n + 1] = z3.BoolVal(False)
    return T[0][0]


class MatchVsDP(Harness):
    witnesses = ('ellipsis_true_with_wildcard', 'ellipsis_false_with_wildcard', 'ellipsis_disabled')

    def __init__(self, job):
        import z3
        instrumented()
        from sea.symstr import SymStr
        from xdoctest import checker, directive
        self.checker, self.directive = checker, directive
        self.G, c1 = SymStr.fresh('g', job['gcap'])
        self.W, c2 = SymStr.fresh('w', job['wcap'])
        self.ell = z3.Bool('ELLIPSIS')
        self.base = c1 + c2
        self.spec = None

    def run(self, ex):
        import z3
        from sea.core import SymBool
        rs = mkstate(self.directive, ELLIPSIS=SymBool(self.ell))
        res = zbool(self.checker._check_match(self.G, self.W, rs))
        if self.spec is None:
            self.spec = wildcard_spec(self.G, self.W)
        eq = zbool(self.G == self.W)
        haswc = zbool(self.W.contains('...'))
        ex.witness('ellipsis_true_with_wildcard', z3.And(self.ell, haswc, res, z3.Not(eq), self.G.nz() > 2))
        ex.witness('ellipsis_false_with_wildcard', z3.And(self.ell, haswc, z3.Not(res), self.G.nz() > 2))
        ex.witness('ellipsis_disabled', z3.And(z3.Not(self.ell), haswc))
        expected = z3.Or(eq, z3.And(self.ell, self.spec))
        return res == expected

    def describe(self, m):
        import z3
        return {'got': self.G.concrete(m), 'want': self.W.concrete(m),
                'ELLIPSIS': z3.is_true(m.eval(self.ell, model_completion=True))}


class EllipsisOff(Harness):
    """check_output end to end with ELLIPSIS off and the normalisation step
    abstracted to ARBITRARY output texts (fresh symbolic strings): the verdict
    is exactly `raw texts equal or normalised texts equal`, so a '...' in the
    want can only ever stand for itself.  What normalisation does is C05."""
    witnesses = ('match_with_dots', 'mismatch_with_dots')
    stubs = ['checker.normalize -> returns two fresh symbolic strings (any normalisation result)']

    def __init__(self, job):
        import z3
        instrumented()
        from sea.symstr import SymStr
        from xdoctest import checker, directive
        self.checker, self.directive = checker, directive
        self.G, c1 = SymStr.fresh('g', job['gcap'])
        self.W, c2 = SymStr.fresh('w', job['wcap'], minlen=1)
        self.NG, c3 = SymStr.fresh('ng', job['gcap'])
        self.NW, c4 = SymStr.fresh('nw', job['wcap'])
        self.flags = {k: z3.Bool(k) for k in ('NORMALIZE_WHITESPACE', 'IGNORE_WHITESPACE', 'NORMALIZE_REPR')}
        self.base = c1 + c2 + c3 + c4
        checker.normalize = lambda got, want, runstate=None: (self.NG, self.NW)

    def run(self, ex):
        import z3
        from sea.core import SymBool
        rs = mkstate(self.directive, ELLIPSIS=False, **{k: SymBool(v) for k, v in self.flags.items()})
        res = zbool(self.checker.check_output(self.G, self.W, rs))
        expected = z3.Or(zbool(self.G == self.W), zbool(self.NG == self.NW))
        dots = zbool(self.NW.contains('...'))
        ex.witness('match_with_dots', z3.And(res, dots, zbool(self.G != self.W)))
        ex.witness('mismatch_with_dots', z3.And(z3.Not(res), dots))
        return res == expected

    def describe(self, m):
        return {'got': self.G.concrete(m), 'want': self.W.concrete(m), 'ELLIPSIS': False,
                'norm_got': self.NG.concrete(m), 'norm_want': self.NW.concrete(m)}


def build(job):
    return {'match_vs_wildcard_dp': MatchVsDP, 'ellipsis_off_is_equality': EllipsisOff}[job['ob']](job)


# ---------------------------------------------------------------- replay (plain interpreter)

def ref_wildcard(got, want):
    """independent reference: tokenise want, then memoised recursive matching"""
    toks = []
    i = 0
    n = len(want)
    while i < n:
        j = i
        while j < n and want[j] in WS:
            j += 1
        if want[j:j + 3] == '...':
            j += 3
            while j < n and want[j] in WS:
                j += 1
            toks.append(None)
            i = j
        else:
            toks.append(want[i])
            i += 1
    import functools

    @functools.lru_cache(None)
    def rec(t, j):
        if t == len(toks):
            return j == len(got)
        if toks[t] is None:
            return any(rec(t + 1, j2) for j2 in range(j, len(got) + 1))
        return j < len(got) and got[j] == toks[t] and rec(t + 1, j + 1)
    return rec(0, 0)


def replay(job, cex):
    from xdoctest import checker, directive
    got, want = cex['got'], cex['want']
    if job['ob'] == 'match_vs_wildcard_dp':
        rs = directive.RuntimeState()
        rs['ELLIPSIS'] = cex['ELLIPSIS']
        real = bool(checker._check_match(got, want, rs))
        exp = (got == want) or (cex['ELLIPSIS'] and ref_wildcard(got, want))
        return {'reproduced': real != exp, 'detail': '_check_match(%r, %r, ELLIPSIS=%s) = %s, wildcard reference = %s' % (
            got, want, cex['ELLIPSIS'], real, exp), 'signature': 'C06:match!=wildcard'}
    rs = directive.RuntimeState()
    rs['ELLIPSIS'] = False
    ng, nw = cex['norm_got'], cex['norm_want']
    orig = checker.normalize
    checker.normalize = lambda g, w, r=None: (ng, nw)
    try:
        real = bool(checker.check_output(got, want, rs))
    finally:
        checker.normalize = orig
    exp = got == want or ng == nw
    return {'reproduced': real != exp, 'detail': 'check_output(%r, %r) with normalised texts (%r, %r), ELLIPSIS off = %s' % (
        got, want, ng, nw, real), 'signature': 'C06:ellipsis-off'}


# ---------------------------------------------------------------- model validation

def validate(job):
    """re.split model for the pattern used by _ellipsis_match vs CPython,
    and the wildcard DP vs the independent python reference."""
    import re
    import z3
    instrumented()
    from sea import validate as V
    from sea.symre import SymPattern
    from sea.symstr import SymStr
    from sea.core import SymBool
    from xdoctest import checker
    pat = r'\s*{}\s*'.format(re.escape(checker.ELLIPSIS_MARKER))
    P = SymPattern(pat, re.MULTILINE)
    samples = V.strings('a. \n', job['maxlen'], limit=4000, seed=job.get('seed', 0),
                        extra=['a...b', '... a', 'a ...  ... b', '....', '......', 'x\t...\n...y'])
    n1, bad1 = V.validate(lambda s: P.split(s), lambda s: re.split(pat, s, flags=re.MULTILINE),
                          [max(8, job['maxlen'])], samples)
    pairs = [(g, w) for g in V.strings('a.', 3) for w in V.strings('a. .', 5, limit=300, seed=1)]
    n2, bad2 = V.validate(lambda g, w: SymBool(wildcard_spec(g, w)), ref_wildcard, [3, 5], pairs)
    return n1 + n2, bad1 + bad2
