"""C01 - doctest code runs exactly as written: each statement once, in order.

Three obligations, all downstream of statement-boundary detection (which is
CPython's ast / tokenizer and therefore an oracle here):

chunk_partition   the real DoctestParser._package_chunk / DoctestPart on a chunk
                  of k source lines: WHICH lines the boundary oracle declares
                  statement starts (any sorted subset of the '>>> ' lines
                  containing the first), the mode hint, which statements carry
                  a block / inline directive (Directive.extract oracle), whether
                  a want follows, and the chunk's starting line as an UNBOUNDED
                  integer are solver variables.  The yielded parts' exec lines
                  (and original lines) concatenated are exactly the chunk's
                  lines, each once, in order; every cut is at a statement
                  start; only the last part carries the want; line_offset ==
                  lineno + index of the part's first line for all lineno; an
                  inline directive's part holds exactly its own statement; a
                  block directive starts a part; eval / single mode only for
                  the last part, with a want, when the hint says so, and then
                  that part is the last statement alone (unless it is the only
                  one).
run_order_namespace  the real DocTest.run / _test_globals on k parts with
                  symbolic skip state, has-code, awaiting: every runnable part
                  executes exactly once, in order, in ONE dictionary that keeps
                  the bindings of earlier parts (also for names that exist in
                  the module under test); awaiting parts go through
                  asyncio.run exactly once.
capture_attribution  = the real-capture schedule of C12 (what each part wrote is
                  what is logged for it; nothing lost, duplicated or handed to
                  the next doctest).
"""
import types
import z3
from .common import Harness, zbool, instrumented
from . import hrun

PROPERTY = 'C01'
BOUNDS = {'quick': 'chunk: k<=4 lines; run order: k=3 parts; program_parts: 2 statements of 12 kinds x style x directive x want x 3 layouts; capture: as C12 quick',
          'thorough': 'chunk: k<=6 lines; run order: k=4 parts; program_parts as quick (3 statements did not finish within 16 minutes on 8 cores and were withdrawn)'}
OUTSIDE = ('where statements begin and end for programs outside the grammar of program_parts (_locate_ps1_linenos = ast.parse, the tokenizer are real there and oracles elsewhere), what compile/exec do with the text, top-level await semantics, '
           'and therefore "same effect as executing the de-prompted source as a plain program": none of it can be encoded; the claim is that '
           "xdoctest's own slicing / ordering / namespace / capture logic loses, duplicates or re-orders nothing for every answer those components can give")
ASSUMPTIONS = ['the boundary oracle returns a sorted subset of the ">>> " prefixed lines that contains line 0 (its contract: statement starts, PS2 lines removed)',
               'Directive.extract reports per statement none / block / inline directives (block only on a line of its own)']


def jobs(tier):
    q = tier == 'quick'
    from . import c12
    cj = [j for j in c12.jobs(tier) if j['harness'] == 'run'][0]
    return [{'ob': 'chunk_partition', 'harness': 'chunk', 'k': 4 if q else 6, 'splits': [3, 6, 9, 12], 'query_timeout_s': 60,
             'bounds': 'k<=%d source lines, lineno unbounded' % (4 if q else 6)},
            {'ob': 'run_order_namespace', 'harness': 'order', 'k': 3 if q else 4, 'splits': [3, 6, 9], 'query_timeout_s': 60,
             'bounds': 'k=%d parts' % (3 if q else 4)},
            {'ob': 'program_parts', 'harness': 'program', 'k': 2, 'wants': True, 'splits': [2, 4], 'query_timeout_s': 60,
             'bounds': '2 statements from a grammar of 12 kinds (simple, expression, compound, decorated def / async def / class, double decorator, bracket, triple-quoted string, comment, await, async with) x prompt style (>>> everywhere / ... continuation / unprefixed string lines) x inline directive x want, 3 layouts (flush left, indented below prose, indented)'},
            dict(cj, ob='capture_attribution', harness='capture')]


class Chunk(Harness):
    witnesses = ('inline_directive_in_the_middle', 'block_directive_last', 'eval_last_statement_split', 'multi_line_statement')

    def __init__(self, job):
        instrumented()
        from xdoctest import parser, directive
        self.parser, self.directive = parser, directive
        self.job = job
        K = self.K = job['k']
        self.n = z3.Int('n_lines')
        self.ps2 = [z3.Bool('line%d_is_continuation' % i) for i in range(K)]
        self.start = [z3.Bool('line%d_starts_statement' % i) for i in range(K)]
        self.dirk = [z3.Int('directive_of_statement_at_%d' % i) for i in range(K)]   # 0 none 1 block 2 inline
        self.haswant = z3.Bool('has_want')
        self.hint = z3.Int('mode_hint')
        self.lineno = z3.Int('lineno')
        self.base = [self.n >= 1, self.n <= K, self.hint >= 0, self.hint <= 2, z3.Not(self.ps2[0]), self.start[0]]
        for i in range(K):
            self.base += [self.dirk[i] >= 0, self.dirk[i] <= 2, z3.Implies(self.ps2[i], z3.Not(self.start[i]))]
        harness = self

        def locate(self_, source_lines):
            return harness.ps1, harness.mode
        parser.DoctestParser._locate_ps1_linenos = locate

        def extract(cls, text):
            # the text is the statement's exec lines joined: identify it by its first line
            first = text.split('\n')[0]
            i = int(first.split('_')[1])
            kind = harness.dkinds.get(i, 0)
            if kind == 0:
                return iter(())
            return iter([directive.Directive('SKIP', True, [], kind == 2)])
        directive.Directive.extract = classmethod(extract)
        self.stubs = ['DoctestParser._locate_ps1_linenos -> the symbolic statement starts and mode hint',
                      'Directive.extract -> none / one block / one inline directive per statement (symbolic)']

    def run(self, ex):
        from sea.core import SymBool, SymInt
        n = int(SymInt(self.n))
        ps2 = [bool(SymBool(self.ps2[i])) for i in range(n)]
        self.ps1 = [i for i in range(n) if not ps2[i] and bool(SymBool(self.start[i]))]
        self.mode = ['exec', 'eval', 'single'][int(SymInt(self.hint))]
        self.dkinds = {}
        for s1, s2 in zip(self.ps1, self.ps1[1:] + [n]):
            k = int(SymInt(self.dirk[s1]))
            if k == 1 and s2 - s1 != 1:
                k = 0          # a block directive is a comment line of its own
            self.dkinds[s1] = k
        haswant = bool(SymBool(self.haswant))
        src = [('... ' if ps2[i] else '>>> ') + 'stmt_%d_' % i for i in range(n)]
        wants = ['want line'] if haswant else []
        lineno = SymInt(self.lineno)
        P = self.parser.DoctestParser()
        parts = list(P._package_chunk(src, wants, lineno))
        exec_all = [l[4:] for l in src]
        props = {}
        props['exec_lines_partition'] = z3.BoolVal(sum([p.exec_lines for p in parts], []) == exec_all)
        props['orig_lines_partition'] = z3.BoolVal(sum([p.orig_lines for p in parts], []) == src)
        firsts = []
        idx = 0
        offs = []
        for p in parts:
            firsts.append(idx)
            offs.append(zbool(p.line_offset == lineno + idx))
            idx += len(p.exec_lines)
        props['cuts_only_at_statement_starts'] = z3.BoolVal(all(f in self.ps1 for f in firsts))
        props['line_offset_for_every_lineno'] = z3.And(offs)
        props['only_last_part_has_the_want'] = z3.BoolVal(all(not p.want_lines for p in parts[:-1]) and
                                                         (bool(parts[-1].want_lines) == haswant))
        # directives: an inline directive's part is exactly its statement; a block directive starts a part
        dok = True
        for s1, s2 in zip(self.ps1, self.ps1[1:] + [n]):
            k = self.dkinds[s1]
            if k == 2:
                dok = dok and (s1 in firsts) and (s2 == n or s2 in firsts)
            elif k == 1:
                dok = dok and (s1 in firsts)
        props['directives_isolate_their_statement'] = z3.BoolVal(dok)
        # what each part reports as its directives is what its OWN statements carry
        pd = True
        for p, f in zip(parts, firsts):
            own = [self.dkinds.get(i, 0) for i in range(f, f + len(p.exec_lines)) if i in self.dkinds]
            got = list(p.directives)
            pd = pd and (len(got) == sum(1 for k in own if k))
        props['part_directives_are_its_own'] = z3.BoolVal(pd)
        modes = [p.compile_mode for p in parts]
        mok = all(m == 'exec' for m in modes[:-1])
        if not haswant:
            mok = mok and modes[-1] == 'exec'
        else:
            mok = mok and modes[-1] == self.mode
            if self.mode in ('eval', 'single') and len(self.ps1) > 1:
                mok = mok and firsts[-1] == self.ps1[-1]
        props['compile_modes'] = z3.BoolVal(mok)
        if any(k == 2 for s, k in self.dkinds.items() if 0 < s < self.ps1[-1]):
            ex.witness('inline_directive_in_the_middle', True)
        if self.dkinds.get(self.ps1[-1]) == 1 and len(self.ps1) > 1:
            ex.witness('block_directive_last', True)
        if haswant and self.mode == 'eval' and len(self.ps1) > 1 and not any(self.dkinds.values()):
            ex.witness('eval_last_statement_split', True)
        if any(ps2):
            ex.witness('multi_line_statement', True)
        return props

    def describe(self, model):
        def b(v):
            return z3.is_true(model.eval(v, model_completion=True))

        def nn(v):
            return model.eval(v, model_completion=True).as_long()
        n = nn(self.n)
        lines = []
        for i in range(n):
            lines.append({'continuation': b(self.ps2[i]), 'starts_statement': (not b(self.ps2[i])) and b(self.start[i]), 'directive': ['none', 'block', 'inline'][nn(self.dirk[i])]})
        return {'harness': 'chunk', 'lines': lines, 'has_want': b(self.haswant), 'mode_hint': ['exec', 'eval', 'single'][nn(self.hint)], 'lineno': nn(self.lineno)}


class Order(Harness):
    witnesses = ('rebinding_module_global_is_kept', 'skipped_part_in_the_middle', 'awaiting_part')

    def __init__(self, job):
        self.m = hrun.install()
        self.job = job
        K = self.K = job['k']
        self.kind = [z3.Int('part%d' % i) for i in range(K)]    # 0 code, 1 comment only, 2 inline skip, 3 awaits
        self.hasmod = z3.Bool('doctest_belongs_to_a_module')
        self.base = []
        for i in range(K):
            self.base += [self.kind[i] >= 0, self.kind[i] <= 3]
        self.stubs = hrun.STUB_NOTES + ['asyncio.run -> recorder that drives the coroutine']

    def run(self, ex):
        import asyncio
        from sea.core import SymBool, SymInt
        m = self.m
        D = m['directive']
        E = hrun.ENV
        E.reset()
        kinds = [int(SymInt(v)) for v in self.kind]
        hasmod = bool(SymBool(self.hasmod))
        P = m['doctest_part'].DoctestPart
        parts = []
        seen = []
        runs = []
        for i, k in enumerate(kinds):
            src = ('# comment #%d#' if k == 1 else 'x = 1 #%d#') % i
            dirs = [D.Directive('SKIP', True, [], True)] if k == 2 else []
            parts.append(P([src], want_lines=None, line_offset=i, orig_lines=['>>> ' + src], directives=dirs))

            def body(glb, i=i):
                seen.append((i, glb.get('SHARED'), glb.get('MODULE_GLOBAL'), id(glb)))
                glb['SHARED'] = i
                glb['MODULE_GLOBAL'] = 'set by part %d' % i

            def beh(code, glb, i=i, k=k, body=body):
                if k == 3:
                    async def coro():
                        body(glb)
                    return coro()
                body(glb)
            E.behaviour[i] = beh
        E.compile_hook = lambda idx, mode, filename: hrun.Code(idx, mode, coroutine=(kinds[idx] == 3), filename=filename)
        real_arun = asyncio.run

        def arun(coro, **kw):
            runs.append(1)
            return real_arun(coro, **kw)
        m['doctest_example'].asyncio.run = arun
        dt = m['doctest_example'].DocTest('', None, 'f', 0, 1, mode='native')
        if hasmod:
            mod = types.ModuleType('m_c01')
            mod.MODULE_GLOBAL = 'module value'
            dt.module = mod
        dt._parts = parts
        try:
            summ = dt.run(verbose=0, on_error='return')
        finally:
            m['doctest_example'].asyncio.run = real_arun
        runnable = [i for i, k in enumerate(kinds) if k in (0, 3)]
        props = {}
        props['each_runnable_part_once_in_order'] = z3.BoolVal(list(E.trace) == runnable and [s[0] for s in seen] == runnable)
        props['one_namespace_object'] = z3.BoolVal(len(set(s[3] for s in seen)) <= 1)
        ok = True
        prev = None
        for (i, shared, modglob, _) in seen:
            exp_mod = ('set by part %d' % prev) if prev is not None else ('module value' if hasmod else None)
            ok = ok and shared == prev and modglob == exp_mod
            prev = i
        props['bindings_of_earlier_parts_are_kept'] = z3.BoolVal(ok)
        props['awaiting_parts_run_through_the_event_loop_once'] = z3.BoolVal(len(runs) == sum(1 for k in kinds if k == 3))
        props['passes'] = z3.BoolVal(summ['failed'] is False)
        if hasmod and len(runnable) >= 2:
            ex.witness('rebinding_module_global_is_kept', True)
        if any(k == 2 for k in kinds[1:-1]) and len(runnable) >= 2:
            ex.witness('skipped_part_in_the_middle', True)
        if 3 in kinds:
            ex.witness('awaiting_part', True)
        return props

    def describe(self, model):
        def nn(v):
            return model.eval(v, model_completion=True).as_long()
        return {'harness': 'order', 'parts': [['code', 'comment', 'inline_skip', 'await'][nn(v)] for v in self.kind],
                'module': z3.is_true(model.eval(self.hasmod, model_completion=True))}


class Program(Harness):
    """kind III: a doctest generated from the statement grammar of c01_program goes through the
    REAL parser (real tokenizer, real ast): statements keep their lines and their part."""
    witnesses = ('decorated_async_def_after_directive', 'unprefixed_string_lines_in_indented_block', 'statement_with_want_then_statement', 'continuation_style_compound')

    def __init__(self, job):
        instrumented()
        from xdoctest import parser
        from . import c01_program as P
        self.parser = parser
        self.P = P
        self.job = job
        K = job['k']
        self.kind = [z3.Int('kind%d' % i) for i in range(K)]
        self.style = [z3.Int('style%d' % i) for i in range(K)]
        self.direc = [z3.Bool('directive%d' % i) for i in range(K)]
        self.wantf = [z3.Bool('want%d' % i) for i in range(K)]
        self.layout = z3.Int('layout')
        self.base = [self.layout >= 0, self.layout <= 2]
        for i in range(K):
            self.base += [self.kind[i] >= 0, self.kind[i] < len(P.KINDS), self.style[i] >= 0, self.style[i] < P.STYLES]
            if not job.get('wants', True):
                self.base.append(z3.Not(self.wantf[i]))
            # the grammar's side conditions (c01_program.applicable) as constraints, so that no path is spent outside it
            names = [n for n, _ in P.KINDS]
            single = [j for j, (n, ls) in enumerate(P.KINDS) if len(ls) == 1]
            self.base.append(z3.Implies(self.style[i] == 2, self.kind[i] == names.index('triple_quoted')))
            self.base.append(z3.Implies(z3.Or([self.kind[i] == j for j in single]), self.style[i] == 0))
            self.base.append(z3.Implies(self.kind[i] == names.index('comment'), z3.And(z3.Not(self.wantf[i]), z3.Not(self.direc[i]))))
            self.base.append(z3.Implies(self.kind[i] == names.index('triple_quoted'), z3.Not(self.direc[i])))

    def case(self, n, b=None):
        lay = n(self.layout)
        stmts = [dict(kind=n(self.kind[i]), style=n(self.style[i]), directive=b(self.direc[i]), want=b(self.wantf[i])) for i in range(len(self.kind))]
        return {'harness': 'program', 'stmts': stmts, 'indent': 0 if lay == 0 else 4, 'prose': lay == 1}

    def run(self, ex):
        from sea.core import SymBool, SymInt
        P = self.P
        c = self.case(lambda v: int(SymInt(v)), lambda v: bool(SymBool(v)))
        if not all(P.applicable(st) for st in c['stmts']):
            ex.assume(False)          # combination outside the grammar (e.g. unprefixed lines outside a string)
        bad = P.problems(self.parser, c)
        self.last_error = bad
        names = [P.KINDS[s['kind']][0] for s in c['stmts']]
        if not bad:
            for a, b in zip(c['stmts'], c['stmts'][1:]):
                if a['directive'] and P.KINDS[b['kind']][0] == 'decorated_async_def':
                    ex.witness('decorated_async_def_after_directive', True)
                if a['want'] and not b['want']:
                    ex.witness('statement_with_want_then_statement', True)
            if c['prose'] and any(s['style'] == 2 for s in c['stmts']):
                ex.witness('unprefixed_string_lines_in_indented_block', True)
            if any(s['style'] == 1 and n == 'compound' for s, n in zip(c['stmts'], names)):
                ex.witness('continuation_style_compound', True)
        return {'statements_keep_their_lines_and_their_part': z3.BoolVal(not bad)}

    def describe(self, model):
        return self.case(lambda v: model.eval(v, model_completion=True).as_long(), lambda v: z3.is_true(model.eval(v, model_completion=True)))


def build(job):
    if job['harness'] == 'program':
        return Program(job)
    if job['harness'] == 'chunk':
        return Chunk(job)
    if job['harness'] == 'order':
        return Order(job)
    from . import c12
    return c12.RunRestores(job)


# ---------------------------------------------------------------- replay

def replay(job, cex):
    h = cex.get('harness')
    if h == 'run':
        from . import c12
        r = c12.replay(job, cex)
        if r.get('signature'):
            r['signature'] = r['signature'].replace('C12:', 'C01:capture:')
        return r
    if h == 'program':
        from xdoctest import parser
        from . import c01_program as P
        bad = P.problems(parser, cex)
        kind = 'raises' if any('raises' in b for b in bad) else ('lines' if any('differ' in b for b in bad) else 'parts')
        return {'reproduced': bool(bad), 'detail': 'doctest %r: %s' % (P.doctest_text(cex)[0], bad), 'signature': 'C01:program:' + kind}
    if h == 'chunk':
        # realise the chunk with real statements; the real boundary detection then has to
        # agree with the oracle's answer, otherwise the counterexample is abstract
        from xdoctest import parser
        lines = cex['lines']
        src = []
        stmts = []
        i = 0
        n = len(lines)
        while i < n:
            j = i + 1
            while j < n and not lines[j]['starts_statement']:
                j += 1
            seg = lines[i:j]
            d = seg[0]['directive']
            if len(seg) == 1:
                if d == 'block':
                    src.append('>>> # xdoctest: +SKIP')
                else:
                    src.append('>>> t.append(%d)%s' % (i, '  # xdoctest: +SKIP' if d == 'inline' else ''))
            else:
                body = ['>>> t.append((%d,' % i] + [('... ' if l['continuation'] else '>>> ') + '  0,' for l in seg[1:-1]] + [('... ' if seg[-1]['continuation'] else '>>> ') + '  0))' + ('  # xdoctest: +SKIP' if d == 'inline' else '')]
                src += body
            stmts.append((i, j, d))
            i = j
        if cex['has_want'] and cex['mode_hint'] != 'exec':
            pass
        want = ['want line'] if cex['has_want'] else []
        P = parser.DoctestParser()
        try:
            ps1, hint = P._locate_ps1_linenos(src)
        except Exception as e:
            return {'reproduced': False, 'abstract': True, 'detail': 'not realisable: %s' % e}
        if ps1 != [s[0] for s in stmts]:
            return {'reproduced': False, 'abstract': True, 'detail': 'real statement boundaries %r differ from the oracle answer %r for %r' % (ps1, [s[0] for s in stmts], src)}
        parts = list(P._package_chunk(src, want, cex['lineno']))
        bad = []
        if sum([p.exec_lines for p in parts], []) != [l[4:] for l in src]:
            bad.append('exec-lines')
        firsts, idx = [], 0
        for p in parts:
            firsts.append(idx)
            if p.line_offset != cex['lineno'] + idx:
                bad.append('line_offset')
            idx += len(p.exec_lines)
        if any(f not in ps1 for f in firsts):
            bad.append('cut-inside-statement')
        for (s1, s2, d) in stmts:
            if d == 'inline' and not (s1 in firsts and (s2 == n or s2 in firsts)):
                bad.append('inline-directive-not-isolated')
            if d == 'block' and s1 not in firsts:
                bad.append('block-directive-not-at-part-start')
        for p, f in zip(parts, firsts):
            own = [d for (s1, s2, d) in stmts if f <= s1 < f + len(p.exec_lines) and d != 'none']
            if len(list(p.directives)) != len(own):
                bad.append('part-directives')
        return {'reproduced': bool(bad), 'detail': 'chunk %r: %s (parts start at %r)' % (src, sorted(set(bad)), firsts), 'signature': 'C01:chunk:' + ','.join(sorted(set(bad)))}
    # order: real docstring of a real module
    import os
    import sys
    import shutil
    import tempfile
    from xdoctest import core
    d = tempfile.mkdtemp(prefix='xdv-c01-')
    try:
        lines = []
        for i, k in enumerate(cex['parts']):
            if k == 'comment':
                lines += ['>>> # comment %d' % i, '']
            elif k == 'inline_skip':
                lines += ['>>> SEEN.append((%d, "skipped"))  # xdoctest: +SKIP' % i, '']
            elif k == 'await':
                lines += ['>>> import asyncio', '>>> await asyncio.sleep(0)', '>>> SEEN.append((%d, globals().get("SHARED"), MODULE_GLOBAL)); SHARED = %d; MODULE_GLOBAL = "set by part %d"' % (i, i, i), '']
            else:
                lines += ['>>> SEEN.append((%d, globals().get("SHARED"), MODULE_GLOBAL)); SHARED = %d; MODULE_GLOBAL = "set by part %d"' % (i, i, i), '']
        src = 'MODULE_GLOBAL = "module value"\nSEEN = []\n\ndef f():\n    """\n    Example:\n' + ''.join(('        %s\n' % l) if l else '\n' for l in lines) + '    """\n'
        path = os.path.join(d, 'm_c01_replay.py')
        with open(path, 'w') as f:
            f.write(src)
        sys.path.insert(0, d)
        dt = list(core.parse_doctestables(path))[0]
        dt.mode = 'native'
        summ = dt.run(on_error='return', verbose=0)
        mod = sys.modules['m_c01_replay']
        seen = list(mod.SEEN)
        runnable = [i for i, k in enumerate(cex['parts']) if k in ('code', 'await')]
        exp = []
        prev = None
        for i in runnable:
            exp.append((i, prev, ('set by part %d' % prev) if prev is not None else 'module value'))
            prev = i
        bad = seen != exp or summ['failed']
        return {'reproduced': bool(bad), 'detail': 'module %r: statements saw %r, expected %r (failed=%s)' % (src, seen, exp, summ['failed']),
                'signature': 'C01:order'}
    finally:
        sys.modules.pop('m_c01_replay', None)
        if d in sys.path:
            sys.path.remove(d)
        shutil.rmtree(d, ignore_errors=True)
