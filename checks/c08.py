"""C08 - reported line numbers point at the real lines of the source file.

The reported number is a sum of independently computed terms; each term is
decided against its own ground truth:

docstring_start   (t1) TopLevelVisitor._docnode_line_workaround on a SYMBOLIC
                  source and the node the CPython parser hands over for it
                  (lineno / end_lineno of the literal, an input): indentation,
                  string prefix (every valid docstring prefix), quote style,
                  text on the opening line, text before the closing quotes, a
                  trailing comment (may hold the other quote style), number of
                  lines of the literal, number of ESCAPED newlines in the value
                  (non-raw prefixes), 0..2 lines above the function (statement,
                  one-line triple-quoted string, comment): the returned pair is
                  the line of the opening quotes and the line of the closing
                  quotes, and nothing is raised.
file_lines        (t1..t4 end to end, kind III) a module skeleton (container,
                  lines above, prefix, quotes, opening line shared or not, body
                  lines from a menu that includes escaped newlines and backslash
                  continuations) is written to a real file and collected by the
                  real static pipeline: for every part, the file line at
                  DocTest.lineno + line_offset IS the part's first source line.
freeform_offset   (t3) parse_freeform_docstr_examples on the parser's output as
                  a symbolic sequence of text / doctest parts whose LINE COUNTS
                  are unbounded solver integers (text, text ending in a skip
                  label, parts with source and want lines): DocTest.lineno is
                  the docstring line + the number of lines before the first
                  collected part, every part's offset is rebased to it.
offsets_real      (t2+t3+t4) the REAL google / freeform / auto pipeline
                  (split_google_docblocks, parse_*_docstr_examples, the parser)
                  on docstrings assembled from a menu of line kinds: for every
                  collected part, the docstring line at
                  DocTest.lineno - doclineno + part.line_offset IS the part's
                  first source line (enumeration through the explorer).
failure_offset    (t5) = the fault schedule of C09: the reported failing line is
                  the line of the outermost doctest frame / the first want line.
part offsets (t4) are also decided for an unbounded lineno in C01.chunk_partition.
"""
import z3
from .common import Harness, zbool, instrumented

PROPERTY = 'C08'
PREFIXES = ['', 'r', 'R', 'u', 'U']
# lines above the function: a statement, a one-line triple-quoted string in the literal's own style (Q), a comment
ABOVE = ['x = 1', 'Q other Q', '# c']
MENU = ['', 'Example:', 'Args:', '    x (int): prose', 'prose text', '    >>> a = 1', '    >>> print(a)', '    1', '>>> b = 2', 'Ignore:', 'Script:', '    2']
BOUNDS = {'quick': 'docstring_start: literal of 1..2 lines, 0..2 escaped newlines, 0..2 lines above, indent 0 or 4, texts <=1 char; file_lines: 3 body lines from a menu of 7; freeform_offset: 4 elements with unbounded line counts; offsets_real: 3 lines from a menu of %d; failure_offset: as C09 quick' % len(MENU),
          'thorough': 'docstring_start: 1..3 lines, texts <=2; file_lines: 3 body lines (as quick; 4 lines not validated end to end, withdrawn); freeform_offset: 5 elements; offsets_real: 4 lines'}
OUTSIDE = ('docstring_start: text -> AST (CPython parser: lineno / end_lineno of the docstring node are inputs; file_lines uses the real parser); the PyPy / pre-3.8 branches of the workaround '
           '(unreachable on this interpreter); more than 2 escaped newlines; file_lines: only the menu lines, one docstring per module')
ASSUMPTIONS = ['the texts around the quotes do not contain the literal\'s own quote style (it would end the literal)',
               'docstring_start: the node carries lineno = line of the opening quotes and end_lineno = line of the closing quotes (CPython >= 3.8 contract)']


def jobs(tier):
    q = tier == 'quick'
    from . import c09
    j9 = [j for j in c09.jobs(tier) if j['harness'] == 'one'][0]
    return [{'ob': 'docstring_start', 'harness': 'start', 'maxlines': 2 if q else 3, 'cap': 1 if q else 2, 'splits': [3, 6, 9], 'query_timeout_s': 120, 'job_timeout_s': 900 if q else 3000,
             'bounds': 'literal of 1..%d lines, indent 0 or 4, prefix in %r, both quote styles, texts <=%d chars over {a, space, #, both quote characters}' % (2 if q else 3, PREFIXES, 1 if q else 2)},
            {'ob': 'freeform_offset', 'harness': 'free', 'n': 4 if q else 5, 'splits': [3, 6, 9], 'query_timeout_s': 60,
             'bounds': '%d elements; want and text line counts unbounded integers, 1..2 source lines per part' % (4 if q else 5)},
            {'ob': 'offsets_real', 'harness': 'real', 'k': 3 if q else 4, 'splits': [2, 4, 6, 8], 'query_timeout_s': 60,
             'bounds': '%d lines from a menu of %d, styles auto/google/freeform' % (3 if q else 4, len(MENU))},
            {'ob': 'file_lines', 'harness': 'file', 'k': 3, 'splits': [2, 4, 6, 8], 'query_timeout_s': 60,
             'bounds': 'docstring body of %d lines from a menu of %d (blank, prose, prose with an escaped newline, prose with a backslash continuation, statement, statement with want, google header), function / method / decorated function, 0 or 2 lines above, raw or plain prefix, both quote styles, opening line shared or not, styles auto/google/freeform' % (3, len(FMENU))},
            dict(j9, ob='failure_offset', harness='fail')]


class FakeDoc(str):
    """the docstring VALUE: only its number of newline characters matters"""
    def __new__(cls, n):
        o = str.__new__(cls, '')
        o.n = n
        return o

    def count(self, ch):
        return self.n


class FakeConst:
    def __init__(self, v):
        self.value = v
        self.s = v


class FakeExpr:
    """what the CPython parser hands over for the docstring statement (an input here)"""
    def __init__(self, lineno, end_lineno, value):
        self.lineno = lineno
        self.end_lineno = end_lineno
        self.value = FakeConst(value)


class Start(Harness):
    witnesses = ('prefixed_multiline', 'comment_with_other_quotes', 'single_line', 'escaped_newline_in_multiline', 'escaped_newline_reaches_above_the_file',
                 'lines_above')

    def __init__(self, job):
        instrumented()
        from sea.symstr import SymStr
        from xdoctest import static_analysis
        self.st = static_analysis
        self.job = job
        cap = job['cap']
        self.indent = z3.Int('indent')
        self.prefix = z3.Int('prefix')
        self.trip = z3.Bool('double_quotes')
        self.nl = z3.Int('newlines_in_literal')
        self.esc = z3.Int('escaped_newlines')
        self.above = z3.Int('lines_above')
        self.above_kind = z3.Int('kind_of_lines_above')
        self.hascmt = z3.Bool('has_comment')
        self.t0, c0 = SymStr.fresh('open_text', cap, 'a #\'"')
        self.t1, c1 = SymStr.fresh('close_text', cap, 'a #\'"')
        self.cm, c2 = SymStr.fresh('comment', cap + 1, 'a #\'"')
        self.base = c0 + c1 + c2 + [z3.Or(self.indent == 0, self.indent == 4), self.prefix >= 0, self.prefix < len(PREFIXES),
                                    self.nl >= 0, self.nl < job['maxlines'], self.esc >= 0, self.esc <= job.get('maxesc', 2),
                                    self.above >= 0, self.above <= job.get('maxabove', 2), self.above_kind >= 0, self.above_kind < len(ABOVE)]

    def run(self, ex):
        from sea.core import SymBool, SymInt
        nl = int(SymInt(self.nl))
        dq = bool(SymBool(self.trip))
        trip = '"""' if dq else "'''"
        q = '"' if dq else "'"
        prefix = PREFIXES[int(SymInt(self.prefix))]
        esc = int(SymInt(self.esc))
        if prefix in ('r', 'R') and esc:
            ex.assume(False)                             # a raw literal has no escapes
        above = int(SymInt(self.above))
        kind = int(SymInt(self.above_kind)) if above else 0
        hascmt = bool(SymBool(self.hascmt))
        # the literal's own quote character does not occur in its text (it would end it)
        for t in (self.t0, self.t1):
            ex.assume(z3.And([t.cs[k] != ord(q) for k in range(t.cap)]))
        ind = ' ' * int(SymInt(self.indent))          # forked: keeps every position before the texts concrete
        cmt = ('  #' + self.cm) if hascmt else ''
        head = [ABOVE[kind].replace('Q', trip)] * above + ['def f():']
        if nl == 0:
            lines = head + [ind + prefix + trip + self.t0 + trip + cmt, '    return 1']
        else:
            lines = head + [ind + prefix + trip + self.t0] + ['    body'] * (nl - 1) + [ind + self.t1 + trip + cmt, '    return 1']
        first = above + 2                               # 1-based line of the opening quotes
        node = FakeExpr(first, first + nl, FakeDoc(nl + esc))
        vis = self.st.TopLevelVisitor('')
        vis.sourcelines = lines
        try:
            start, stop = vis._docnode_line_workaround(node)
        except Exception as e:
            if esc and nl:
                ex.witness('escaped_newline_reaches_above_the_file', True)
            return {'no_exception_%s' % type(e).__name__: z3.BoolVal(False)}
        if nl >= 1 and prefix:
            ex.witness('prefixed_multiline', True)
        if hascmt:
            ex.witness('comment_with_other_quotes', zbool(self.cm.contains("'''" if dq else '"""')) if self.cm.cap >= 3 else True)
        if nl == 0:
            ex.witness('single_line', True)
        if nl and esc:
            ex.witness('escaped_newline_in_multiline', True)
            if above < esc:
                ex.witness('escaped_newline_reaches_above_the_file', True)
        if above:
            ex.witness('lines_above', True)
        return {'start_is_the_opening_line': zbool(start == first), 'end_is_the_closing_line': zbool(stop == first + nl)}

    def describe(self, model):
        def n(v):
            return model.eval(v, model_completion=True).as_long()
        return {'harness': 'start', 'indent': n(self.indent), 'prefix': PREFIXES[n(self.prefix)], 'double_quotes': z3.is_true(model.eval(self.trip, model_completion=True)),
                'newlines': n(self.nl), 'escaped_newlines': n(self.esc), 'lines_above': n(self.above), 'kind_of_lines_above': n(self.above_kind),
                'open_text': self.t0.concrete(model), 'close_text': self.t1.concrete(model),
                'comment': self.cm.concrete(model) if z3.is_true(model.eval(self.hascmt, model_completion=True)) else None}


class TextPart(str):
    """text part whose number of lines is a solver integer"""
    def count(self, ch):
        return self.nlines - 1


class Free(Harness):
    witnesses = ('ignored_group_before_the_doctest', 'text_before', 'two_kept_parts')

    def __init__(self, job):
        instrumented()
        from xdoctest import core, parser, doctest_part
        self.core, self.parser, self.dp = core, parser, doctest_part
        self.job = job
        N = self.N = job['n']
        self.kind = [z3.Int('element%d' % i) for i in range(N)]       # 0 text, 1 text ending in a skip label, 2 doctest part
        self.nsrc = [z3.Int('source_lines%d' % i) for i in range(N)]
        self.nwant = [z3.Int('want_lines%d' % i) for i in range(N)]
        self.ntext = [z3.Int('text_lines%d' % i) for i in range(N)]
        self.lineno = z3.Int('docstring_lineno')
        self.base = [self.lineno >= 1]
        for i in range(N):
            self.base += [self.kind[i] >= 0, self.kind[i] <= 2, self.nsrc[i] >= 1, self.nsrc[i] <= 2, self.nwant[i] >= 0, self.ntext[i] >= 1]
        self.stubs = ['DoctestParser.parse -> the symbolic sequence of text / doctest parts (what the parser produces is C13/C01)',
                      'DoctestPart.n_lines / str.count of the parts -> solver integers (line counts)']

    def run(self, ex):
        from sea.core import SymInt
        kinds = [int(SymInt(v)) for v in self.kind]
        # the parser never yields two adjacent text parts
        for a, b in zip(kinds, kinds[1:]):
            if a != 2 and b != 2:
                ex.assume(False)
        harness = self

        class Part(self.dp.DoctestPart):
            @property
            def n_lines(self):
                return self._n

        parts = []
        offs = []
        off = z3.IntVal(0)
        for i, k in enumerate(kinds):
            offs.append(off)
            if k == 2:
                ns = int(SymInt(self.nsrc[i]))          # source lines are real list entries; the number of want lines stays a solver integer
                p = Part(['x = %d' % i] * ns, want_lines=['w'], line_offset=SymInt(off) if not z3.is_int_value(z3.simplify(off)) else z3.simplify(off).as_long(),
                         orig_lines=['>>> x = %d' % i] * ns, directives=[])
                p._n = SymInt(self.nsrc[i] + self.nwant[i])
                parts.append(p)
                off = off + self.nsrc[i] + self.nwant[i]
            else:
                t = TextPart('some prose\nIgnore:' if k == 1 else 'some prose')
                t.nlines = SymInt(self.ntext[i])
                parts.append(t)
                off = off + self.ntext[i]
        self.parser.DoctestParser.parse = lambda self_, string, info=None: list(parts)
        lineno = SymInt(self.lineno)
        try:
            exs = list(self.core.parse_freeform_docstr_examples('docstring', callname='f', modpath=None, lineno=lineno, fpath='f.txt', asone=True))
        except Exception as e:
            self.last_error = '%s: %s' % (type(e).__name__, e)
            return {'returns': z3.BoolVal(False)}
        # which parts are collected: a doctest part directly after a text ending in a skip label is ignored,
        # and so are the following doctest parts until the next text
        kept = []
        ignoring = False
        prev = None
        for i, k in enumerate(kinds):
            if k != 2:
                ignoring = False
            else:
                if ignoring or prev == 1:
                    ignoring = True
                else:
                    kept.append(i)
            prev = k
        props = {}
        if not kept:
            props['nothing_collected'] = z3.BoolVal(len(exs) == 0)
            return props
        props['one_example'] = z3.BoolVal(len(exs) == 1)
        if len(exs) != 1:
            return props
        e = exs[0]
        first = kept[0]
        props['lineno_is_docstring_line_plus_lines_before_first_part'] = zbool(e.lineno == lineno + SymInt(offs[first])) if True else None
        rel = []
        for p, i in zip(e._parts, kept):
            rel.append(zbool(p.line_offset == SymInt(z3.simplify(offs[i] - offs[first]))))
        props['part_offsets_rebased'] = z3.And(rel + [z3.BoolVal(len(e._parts) == len(kept))])
        if any(kinds[j] == 1 for j in range(first)):
            ex.witness('ignored_group_before_the_doctest', True)
        if first > 0:
            ex.witness('text_before', True)
        if len(kept) >= 2:
            ex.witness('two_kept_parts', True)
        return props

    def describe(self, model):
        def n(v):
            return model.eval(v, model_completion=True).as_long()
        els = []
        for i in range(self.N):
            k = n(self.kind[i])
            els.append({'kind': ['text', 'text_skip_label', 'doctest'][k], 'source_lines': n(self.nsrc[i]), 'want_lines': n(self.nwant[i]), 'text_lines': n(self.ntext[i])})
        return {'harness': 'free', 'elements': els, 'lineno': n(self.lineno)}


class Real(Harness):
    witnesses = ('google_block_after_args', 'freeform_after_ignored_group', 'part_not_first')

    def __init__(self, job):
        instrumented()
        from xdoctest import core
        self.core = core
        self.job = job
        K = self.K = job['k']
        self.tok = [z3.Int('line%d' % i) for i in range(K)]
        self.style = z3.Int('style')
        self.base = [self.style >= 0, self.style <= 2]
        for i in range(K):
            self.base += [self.tok[i] >= 0, self.tok[i] < len(MENU)]
        from sea import instrument
        instrument.RT.STUBS['print'] = lambda *a, **k: None

    def run(self, ex):
        import warnings
        from sea.core import SymInt
        lines = [MENU[int(SymInt(v))] for v in self.tok]
        style = ['auto', 'google', 'freeform'][int(SymInt(self.style))]
        doc = '\n'.join(lines)
        doclineno = 100
        with warnings.catch_warnings(record=True):
            warnings.simplefilter('always')
            try:
                exs = list(self.core.parse_docstr_examples(doc, callname='f', modpath=None, fpath='f.txt', lineno=doclineno, style=style))
            except Exception as e:
                self.last_error = '%s: %s' % (type(e).__name__, e)
                return {'collection_returns': z3.BoolVal(False)}
        ok = True
        detail = None
        nparts = 0
        for e in exs:
            e._parse()
            for p in e._parts:
                nparts += 1
                idx = e.lineno - doclineno + p.line_offset
                if not (0 <= idx < len(lines)) or lines[idx].strip() != p.orig_lines[0].strip():
                    ok = False
                    detail = (e.lineno, p.line_offset, p.orig_lines[0])
        self.last_error = detail
        if exs and 'Args:' in lines and style != 'freeform':
            ex.witness('google_block_after_args', True)
        if exs and style == 'freeform' and any(l in ('Ignore:', 'Script:') for l in lines):
            ex.witness('freeform_after_ignored_group', True)
        if nparts >= 2:
            ex.witness('part_not_first', True)
        return {'every_part_offset_locates_its_first_line': z3.BoolVal(ok)}

    def describe(self, model):
        def n(v):
            return model.eval(v, model_completion=True).as_long()
        return {'harness': 'real', 'lines': [MENU[n(v)] for v in self.tok], 'style': ['auto', 'google', 'freeform'][n(self.style)]}


# ---------------------------------------------------------------- whole files (kind III)

# lines of the docstring body; {i} is the line's own index (every line is distinct, any shift is seen)
FMENU = ['', 'prose {i}', "joins with '\\n' text {i}", '>>> m{i} = 1', '>>> print({i})|{i}', 'Example:', 'prose {i} \\']
FSTYLES = ['auto', 'google', 'freeform']
FCONTAINERS = ['function', 'method', 'decorated']
ESCAPING = (2, 6)     # menu lines whose escape changes the number of lines of the VALUE in a non-raw literal


def file_source(c):
    """skeleton -> (module text, callname)"""
    trip = '"' * 3 if c['double_quotes'] else "'" * 3
    cont = FCONTAINERS[c['container']]
    head = ['x%d = 1' % i for i in range(c['lines_above'])]
    if cont == 'method':
        head += ['class K:', '    def f(self):']
        ind = ' ' * 8
        name = 'K.f'
    elif cont == 'decorated':
        head += ['import functools', '@functools.lru_cache(None)', 'def f():']
        ind = ' ' * 4
        name = 'f'
    else:
        head += ['def f():']
        ind = ' ' * 4
        name = 'f'
    body = []
    deeper = ''
    for i, t in enumerate(c['lines']):
        item = FMENU[t].replace('{i}', str(i))
        for piece in item.split('|'):
            body.append((ind + deeper + piece) if piece else '')
        if t == 5:
            deeper = '    '
    if c['open_shares_line']:
        first = ind + c['prefix'] + trip + 'summary'
    else:
        first = ind + c['prefix'] + trip
    lines = head + [first] + body + [ind + trip, ind + 'return 1']
    return '\n'.join(lines) + '\n', name


def file_problems(core, c, path):
    """runs the real static collection on the file; returns (problems, n examples, n parts)"""
    import warnings
    src, name = file_source(c)
    with open(path, 'w') as f:
        f.write(src)
    flines = src.split('\n')
    with warnings.catch_warnings(record=True):
        warnings.simplefilter('always')
        try:
            exs = list(core.parse_doctestables(path, style=FSTYLES[c['style']], analysis='static'))
        except Exception as e:
            return ['collection raises %s: %s' % (type(e).__name__, e)], 0, 0
    bad = []
    nparts = 0
    for e in exs:
        e._parse()
        for p in e._parts:
            if not getattr(p, 'orig_lines', None):
                continue
            nparts += 1
            idx = e.lineno + p.line_offset - 1
            want = p.orig_lines[0].strip()
            got = flines[idx].strip() if 0 <= idx < len(flines) else None
            if got != want:
                bad.append('%s: lineno %d + offset %d is file line %r, the part starts with %r' % (e.unique_callname, e.lineno, p.line_offset, got, want))
    return bad, len(exs), nparts


def file_known_class(c):
    """K-C08-ESC: in a non-raw literal an escape that changes the number of lines of the value stands before an example"""
    if c['prefix'] in ('r', 'R'):
        return False
    ls = c['lines']
    for i, t in enumerate(ls):
        if t in ESCAPING and any(u in (3, 4) for u in ls[i + 1:]):
            return True
    return False


class File(Harness):
    witnesses = ('escape_after_the_example', 'raw_docstring_with_backslash_n', 'google_block', 'two_parts', 'method_with_lines_above')

    def __init__(self, job):
        instrumented()
        import tempfile
        from xdoctest import core
        self.core = core
        self.job = job
        K = job['k']
        self.tok = [z3.Int('line%d' % i) for i in range(K)]
        self.style = z3.Int('style')
        self.cont = z3.Int('container')
        self.above = z3.Int('lines_above')
        self.raw = z3.Bool('raw_prefix')
        self.dq = z3.Bool('double_quotes')
        self.share = z3.Bool('open_shares_line')
        self.base = [self.style >= 0, self.style <= 2, self.cont >= 0, self.cont < len(FCONTAINERS), z3.Or(self.above == 0, self.above == 2)]
        for i in range(K):
            self.base += [self.tok[i] >= 0, self.tok[i] < len(FMENU)]
        # a trailing backslash on the last body line would escape the line break before the closing quotes: same class, keeps the skeleton simple
        self.base += [self.tok[K - 1] != 6]
        self.dir = tempfile.mkdtemp(prefix='xdv-c08f-')
        self.n = 0
        from sea import instrument
        instrument.RT.STUBS['print'] = lambda *a, **k: None

    def case(self, get_int, get_bool):
        return {'harness': 'file', 'lines': [get_int(v) for v in self.tok], 'style': get_int(self.style), 'container': get_int(self.cont), 'lines_above': get_int(self.above),
                'prefix': 'r' if get_bool(self.raw) else '', 'double_quotes': get_bool(self.dq), 'open_shares_line': get_bool(self.share)}

    def run(self, ex):
        import os
        from sea.core import SymBool, SymInt
        c = self.case(lambda v: int(SymInt(v)), lambda v: bool(SymBool(v)))
        if 'K-C08-ESC' in self.job.get('exclude', []) and file_known_class(c):
            return {'excluded_known_class': z3.BoolVal(True)}
        self.n += 1
        path = os.path.join(self.dir, 'm_c08_%d_%d.py' % (os.getpid(), self.n % 50))
        bad, nex, nparts = file_problems(self.core, c, path)
        self.last_error = bad
        ls = c['lines']
        if nex and not bad:
            if c['prefix'] == '' and any(t in ESCAPING for t in ls) and not file_known_class(c):
                ex.witness('escape_after_the_example', True)
            if c['prefix'] == 'r' and 2 in ls:
                ex.witness('raw_docstring_with_backslash_n', True)
            if 5 in ls and c['style'] != 2:
                ex.witness('google_block', True)
            if nparts >= 2:
                ex.witness('two_parts', True)
            if c['container'] == 1 and c['lines_above']:
                ex.witness('method_with_lines_above', True)
        return {'every_reported_line_is_the_real_file_line': z3.BoolVal(not bad)}

    def describe(self, model):
        return self.case(lambda v: model.eval(v, model_completion=True).as_long(), lambda v: z3.is_true(model.eval(v, model_completion=True)))


def build(job):
    if job['harness'] == 'file':
        return File(job)
    if job['harness'] == 'start':
        return Start(job)
    if job['harness'] == 'free':
        return Free(job)
    if job['harness'] == 'real':
        return Real(job)
    from . import c09
    return c09.One(job)


# ---------------------------------------------------------------- replay

def replay(job, cex):
    h = cex.get('harness')
    if h == 'one':
        from . import c09
        r = c09.replay(job, cex)
        if r.get('signature'):
            r['signature'] = r['signature'].replace('C09:', 'C08:failure:')
        return r
    if h == 'start':
        # a real module: the reported line of the doctest inside the docstring must be right
        import os
        import shutil
        import tempfile
        from xdoctest import core
        trip = '"""' if cex['double_quotes'] else "'''"
        ind = ' ' * max(cex['indent'], 1)     # a real function body is indented
        nl = cex['newlines']
        cm = ('  #' + cex['comment']) if cex['comment'] is not None else ''
        escs = '\\n' * cex.get('escaped_newlines', 0)
        head = [ABOVE[cex.get('kind_of_lines_above', 0)].replace('Q', trip)] * cex.get('lines_above', 0) + ['def f():']
        if nl == 0:
            body = [ind + cex['prefix'] + trip + cex['open_text'] + escs + trip + cm]
        else:
            body = [ind + cex['prefix'] + trip + cex['open_text'] + escs] + [ind + '>>> marker_%d = 1' % i for i in range(nl - 1)] + [ind + cex['close_text'] + trip + cm]
        src = '\n'.join(head + body + [ind + 'return 1']) + '\n'
        first = len(head) + 1
        d = tempfile.mkdtemp(prefix='xdv-c08-')
        try:
            path = os.path.join(d, 'm_c08_replay.py')
            with open(path, 'w') as f:
                f.write(src)
            try:
                compile(src, path, 'exec')
            except SyntaxError as e:
                return {'reproduced': False, 'abstract': True, 'detail': 'not valid python: %s' % e}
            from xdoctest import static_analysis
            try:
                calldefs = static_analysis.parse_static_calldefs(fpath=path)
            except Exception as e:
                return {'reproduced': True, 'detail': 'module %r: collection raises %s: %s' % (src, type(e).__name__, e), 'signature': 'C08:docstring-start:exception'}
            got = calldefs['f'].doclineno
            return {'reproduced': got != first, 'detail': 'module %r: doclineno=%r, the literal opens on line %d' % (src, got, first),
                    'signature': 'C08:docstring-start:prefix=%s:escapes=%s' % (cex['prefix'], bool(escs))}
        finally:
            shutil.rmtree(d, ignore_errors=True)
    if h == 'file':
        import os
        import shutil
        import tempfile
        from xdoctest import core
        d = tempfile.mkdtemp(prefix='xdv-c08f-')
        try:
            bad, nex, nparts = file_problems(core, cex, os.path.join(d, 'm_c08_replay.py'))
        finally:
            shutil.rmtree(d, ignore_errors=True)
        if bad and file_known_class(cex) and not any('raises' in b for b in bad):
            sig = 'C08:escape-shifts-lines'
        else:
            sig = 'C08:file-lines:' + ('exception' if any('raises' in b for b in bad) else 'wrong-line')
        return {'reproduced': bool(bad), 'detail': 'module %r style %s: %s' % (file_source(cex)[0], FSTYLES[cex['style']], bad), 'signature': sig}
    if h == 'free':
        from xdoctest import core
        lines = []
        expect_first = None
        prev_kind = None
        ignoring = False
        for i, e in enumerate(cex['elements']):
            if e['kind'] == 'doctest':
                if ignoring or prev_kind == 'text_skip_label':
                    ignoring = True
                elif expect_first is None:
                    expect_first = len(lines)
                ind = '    ' if prev_kind == 'text_skip_label' or ignoring else ''
                lines += [ind + '>>> x%d_%d = 1' % (i, j) for j in range(e['source_lines'] - 1)] + [ind + '>>> print(%d)' % i]
                lines += [ind + 'w%d' % j for j in range(min(e['want_lines'], 6))]
                if e['want_lines'] == 0:
                    lines[-1] = ind + '>>> y%d = 2' % i
            else:
                ignoring = False
                n = min(e['text_lines'], 6)
                body = ['', 'prose %d' % i] if n >= 2 else ['']
                body = (['prose'] * max(0, n - 2)) + body if n > 2 else body[:n] if e['kind'] == 'text' else body
                if e['kind'] == 'text_skip_label':
                    body = [''] * (n - 1) + ['Ignore:']
                lines += body
            prev_kind = e['kind']
        doc = '\n'.join(lines)
        exs = list(core.parse_freeform_docstr_examples(doc, callname='f', modpath=None, lineno=cex['lineno'], fpath='f.txt'))
        bad = []
        for e in exs:
            for p in e._parts:
                idx = e.lineno - cex['lineno'] + p.line_offset
                if not (0 <= idx < len(lines)) or lines[idx].strip() != p.orig_lines[0].strip():
                    bad.append((idx, p.orig_lines[0]))
        return {'reproduced': bool(bad), 'detail': 'docstring %r: parts located at wrong lines: %r' % (doc, bad), 'signature': 'C08:freeform-offset'}
    if h == 'real':
        import warnings
        from xdoctest import core
        lines = cex['lines']
        doc = '\n'.join(lines)
        with warnings.catch_warnings(record=True):
            warnings.simplefilter('always')
            exs = list(core.parse_docstr_examples(doc, callname='f', modpath=None, fpath='f.txt', lineno=100, style=cex['style']))
        bad = []
        for e in exs:
            e._parse()
            for p in e._parts:
                idx = e.lineno - 100 + p.line_offset
                if not (0 <= idx < len(lines)) or lines[idx].strip() != p.orig_lines[0].strip():
                    bad.append((idx, p.orig_lines[0]))
        return {'reproduced': bool(bad), 'detail': 'docstring %r style %s: parts located at wrong lines: %r' % (doc, cex['style'], bad), 'signature': 'C08:offsets-real:' + cex['style']}
    return {'reproduced': False, 'detail': 'unknown harness'}
