"""C20 - backwards compatible: what passes under the standard doctest module passes here.

repl_rule          the acceptance rule of ONE standard example, symbolically: what
                   the example printed (o), whether it produced a value and its
                   repr (r) are symbolic strings; the want is whatever the
                   standard module accepts for them under its documented REPL
                   semantics with optionflags=0 (got = o + repr + newline,
                   compared exactly).  The real DoctestPart.check /
                   checker.check_got_vs_want must accept the same want, with the
                   match relation under-approximated by "equal up to trailing
                   whitespace" (which the real relation contains for every flag
                   setting: C05).
differential_real  docstrings in standard syntax assembled from a menu of examples
                   (echoed expressions, printing, printing AND returning a value,
                   old-style continuations with and without the bare terminator,
                   expected tracebacks, <BLANKLINE>, option directives, prose and
                   blank-line separation) are run through BOTH the real standard
                   doctest module and the real xdoctest: standard passes =>
                   xdoctest passes (enumeration through the explorer, real
                   execution on both sides).
"""
import z3
from .common import Harness, zbool, instrumented
from . import hrun

PROPERTY = 'C20'
EX = [
    ">>> x = 3",
    ">>> x + 1\n4" if False else ">>> 3 + 1\n4",
    ">>> print('a')\na",
    ">>> def f(n):\n...     print('in f', n)\n...     return n + 2\n>>> f(3)\nin f 3\n5",
    ">>> for i in range(2):\n...     print(i)\n0\n1",
    ">>> for i in range(2):\n...     print(i)\n...\n0\n1",
    ">>> raise ValueError('bad')\nTraceback (most recent call last):\n  ...\nValueError: bad",
    ">>> print('a\\n\\nb')\na\n<BLANKLINE>\nb",
    ">>> print('a    b')  # doctest: +NORMALIZE_WHITESPACE\na b",
    ">>> print(list(range(20)))  # doctest: +ELLIPSIS\n[0, 1, ..., 19]",
    ">>> 1 / 0  # doctest: +IGNORE_EXCEPTION_DETAIL\nTraceback (most recent call last):\nZeroDivisionError: other text",
    ">>> undefined_name  # doctest: +SKIP\n42",
    ">>> a = 1; b = 2\n>>> a + b\n3",
    ">>> 'x' * 3\n'xxx'",
    ">>> import sys; _ = sys.stdout.write('no newline'); 7\nno newline7",
    ">>> def g():\n...     import sys\n...     sys.stdout.write('ab')\n...     return 2\n>>> g()\nab2",
    "    >>> 2 + 2\n    4",
]
SEP = ['\n', '\n\n', '\n\nSome prose between the examples.\n\n']
BOUNDS = {'quick': 'repl_rule: |stdout| <= 2, |repr| <= 2 (any ASCII); differential_real: 2 examples from a menu of %d x 3 separators' % len(EX),
          'thorough': 'as quick (3 characters / 3 examples did not finish within 16 minutes on a loaded machine and were withdrawn)'}
OUTSIDE = ('equivalence of the two PARSERS on arbitrary texts (both sit behind regex / ast machinery on whole texts; the grouping rule for old-style continuations is covered structurally by C13 and C01); '
           'real execution beyond the menu; option flags other than the four named ones')
ASSUMPTIONS = ['standard acceptance with optionflags=0: got = stdout + (repr(value) + newline if the example is an expression with a non-None value), compared exactly with the want text',
               'match relation under-approximated by equality up to trailing whitespace (contained in the real relation for every flag setting, C05)']


def jobs(tier):
    q = tier == 'quick'
    return [{'ob': 'repl_rule', 'harness': 'rule', 'cap': 2, 'splits': [3, 6], 'query_timeout_s': 120,
             'bounds': '|stdout|,|repr| <= %d' % 2},
            {'ob': 'differential_real', 'harness': 'diff', 'k': 2, 'splits': [2, 4, 6], 'query_timeout_s': 60,
             'bounds': '%d examples from a menu of %d, 3 separators' % (2, len(EX))}]


class Rule(Harness):
    witnesses = ('prints_and_returns', 'value_only', 'print_only')

    def __init__(self, job):
        self.m = hrun.install()
        from sea.symstr import SymStr
        self.job = job
        cap = job['cap']
        self.o, c1 = SymStr.fresh('stdout', cap, exclude='\x0b\x0c\r\x1c\x1d\x1e')
        self.r, c2 = SymStr.fresh('repr', cap, minlen=1, exclude='\n\x0b\x0c\r\x1c\x1d\x1e')
        self.hasval = z3.Bool('has_value')
        self.base = c1 + c2
        ck = self.m['checker']
        from sea.symstr import SymStr as S
        ck.normalize = lambda g, w, rs=None: (g, w)
        ck._check_match = lambda g, w, rs: (S.of(g).rstrip() == S.of(w).rstrip())
        self.stubs = hrun.STUB_NOTES + ['checker.normalize -> identity, _check_match -> equality up to trailing whitespace (an under-approximation of the real relation)']

    def run(self, ex):
        from sea.core import SymBool
        from sea.symstr import SymStr
        m = self.m
        E = hrun.ENV
        E.reset()
        hasval = bool(SymBool(self.hasval))
        if hasval:
            want = self.o + self.r            # standard: got = o + repr + newline == want text (its last newline is not part of the want lines)
        else:
            # standard: got = o must equal the want text, which ends with a newline and is not blank
            ex.assume(z3.And(self.o.nz() >= 2, self.o.at(self.o.nz() - 1) == 10))
            want = self.o[:-1]
        # a want is a non-empty block of non-blank-leading lines (the standard parser ends it at a blank line)
        ex.assume(z3.Not(zbool(SymStr.of(want).strip() == '')))
        # a standard want starts with a non-blank character (it begins on the line after the example)
        from sea.symstr import _isws
        ex.assume(z3.Not(_isws(SymStr.of(want).at(0))))
        src = 'v = 1 #0#'
        p = m['doctest_part'].DoctestPart([src], want_lines=[want], line_offset=0, orig_lines=['>>> ' + src], directives=[])
        if hasval:
            p.compile_mode = 'eval'

        def beh(code, glb):
            E.cap.write(self.o)
            return hrun.Value(self.r) if hasval else None
        E.behaviour[0] = beh
        dt = m['doctest_example'].DocTest('', None, 'f', 0, 1, mode='native')
        dt._parts = [p]
        summ = dt.run(verbose=0, on_error='return')
        if hasval:
            ex.witness('prints_and_returns', self.o.nz() > 0)
            ex.witness('value_only', self.o.nz() == 0)
        else:
            ex.witness('print_only', True)
        return {'what_the_standard_module_accepts_passes': z3.BoolVal(summ['passed'] is True)}

    def describe(self, model):
        return {'harness': 'rule', 'stdout': self.o.concrete(model), 'repr': self.r.concrete(model),
                'has_value': z3.is_true(model.eval(self.hasval, model_completion=True))}


def run_both(text):
    """-> (standard: (attempted, failed), xdoctest: summary dict)"""
    import doctest
    import io
    import contextlib
    from xdoctest import core
    parser = doctest.DocTestParser()
    test = parser.get_doctest(text, {}, 'c20', 'c20.txt', 0)
    runner = doctest.DocTestRunner(verbose=False, optionflags=0)
    buf = io.StringIO()
    with contextlib.redirect_stdout(buf):
        runner.run(test, out=lambda s: None, clear_globs=True)
    res = runner.summarize(verbose=False) if False else (runner.tries, runner.failures)
    xs = []
    with contextlib.redirect_stdout(io.StringIO()):
        for dt in core.parse_docstr_examples(text, callname='c20', fpath='c20.txt', style='freeform'):
            dt.mode = 'native'
            s = dt.run(on_error='return', verbose=0)
            xs.append({'passed': s['passed'], 'failed': s['failed'], 'skipped': s['skipped'],
                       'exc': type(s['exc_info'][1]).__name__ if s['exc_info'] else None})
    return res, xs


class Diff(Harness):
    witnesses = ('standard_passes', 'print_and_value_example', 'old_style_continuation')

    def __init__(self, job):
        instrumented()
        self.job = job
        K = self.K = job['k']
        self.e = [z3.Int('example%d' % i) for i in range(K)]
        self.s = [z3.Int('separator%d' % i) for i in range(K)]
        self.base = []
        for i in range(K):
            self.base += [self.e[i] >= 0, self.e[i] < len(EX), self.s[i] >= 0, self.s[i] < len(SEP)]
        from sea import instrument
        instrument.RT.STUBS['print'] = lambda *a, **k: None

    def text(self, es, ss):
        t = ''
        for i, e in enumerate(es):
            if i:
                t += SEP[ss[i]]
            t += EX[e]
        return t + '\n'

    def run(self, ex):
        from sea.core import SymInt
        es = [int(SymInt(v)) for v in self.e]
        ss = [int(SymInt(v)) for v in self.s]
        text = self.text(es, ss)
        if 'K-C20-REINDENT' in self.job.get('exclude', []):
            # known finding: an example that directly follows want-less source at a deeper indentation
            if any(es[i] == 17 - 1 and ss[i] == 0 and es[i - 1] == 0 for i in range(1, len(es))):
                return {'excluded_known_class': z3.BoolVal(True)}
        try:
            (tries, fails), xs = run_both(text)
        except Exception as e:
            self.last_error = '%s: %s' % (type(e).__name__, e)
            return {'both_engines_run': z3.BoolVal(False)}
        std_ok = tries > 0 and fails == 0
        x_ok = bool(xs) and all(x['passed'] or x['skipped'] for x in xs) and any(x['passed'] for x in xs)
        if std_ok:
            ex.witness('standard_passes', True)
        if 3 in es and std_ok:
            ex.witness('print_and_value_example', True)
        if 5 in es and std_ok:
            ex.witness('old_style_continuation', True)
        self.last_error = (text, tries, fails, xs)
        return {'standard_passes_implies_xdoctest_passes': z3.BoolVal((not std_ok) or x_ok)}

    def describe(self, model):
        def n(v):
            return model.eval(v, model_completion=True).as_long()
        es, ss = [n(v) for v in self.e], [n(v) for v in self.s]
        return {'harness': 'diff', 'examples': es, 'separators': ss, 'text': self.text(es, ss)}


def build(job):
    return Rule(job) if job['harness'] == 'rule' else Diff(job)


# ---------------------------------------------------------------- replay through both real engines

def replay(job, cex):
    if cex['harness'] == 'diff':
        text = cex['text']
    else:
        o, r = cex['stdout'], cex['repr']
        if any(ord(c) < 32 and c != '\n' for c in o + r) or "'" in o + r or '\\' in o + r or '\n' in r:
            # keep the replay printable: any violation of the rule shows with benign characters too
            o = ''.join(c if (c == '\n' or c.isalnum()) else 'a' for c in o)
            r = ''.join(c if c.isalnum() else 'b' for c in r) or 'b'
        if cex['has_value']:
            text = ">>> class V:\n...     def __repr__(self):\n...         return %r\n>>> def f():\n...     import sys\n...     sys.stdout.write(%r)\n...     return V()\n>>> f()\n%s\n" % (r, o, o + r)
        else:
            text = ">>> import sys\n>>> sys.stdout.write(%r) and None\n%s" % (o, o)
    try:
        (tries, fails), xs = run_both(text)
    except Exception as e:
        return {'reproduced': False, 'detail': 'could not run both engines: %s: %s' % (type(e).__name__, e)}
    std_ok = tries > 0 and fails == 0
    x_ok = bool(xs) and all(x['passed'] or x['skipped'] for x in xs) and any(x['passed'] for x in xs)
    import re as _re
    reind = False
    ls = text.split('\n')
    for a, b in zip(ls, ls[1:]):
        ma, mb = _re.match(r'^(\s*)(>>>|\.\.\.)( |$)', a), _re.match(r'^(\s*)>>>( |$)', b)
        if ma and mb and len(mb.group(1)) > len(ma.group(1)):
            reind = True
    if reind:
        return {'reproduced': std_ok and not x_ok, 'detail': 'text %r: standard doctest tries=%d failures=%d, xdoctest %r' % (text, tries, fails, xs),
                'signature': 'C20:std-passes-xdoctest-fails:reindented-example'}
    kind = 'print+value' if ((cex['harness'] == 'rule' and cex['has_value'] and cex['stdout']) or (cex['harness'] == 'diff' and (3 in cex['examples'] or 14 in cex['examples'] or 15 in cex['examples']))) else 'other'
    return {'reproduced': std_ok and not x_ok, 'detail': 'text %r: standard doctest tries=%d failures=%d, xdoctest %r' % (text, tries, fails, xs),
            'signature': 'C20:std-passes-xdoctest-fails:' + kind}
