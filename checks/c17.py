"""C17 - module name <-> path resolution agrees with Python's import system.

The real util_import._syspath_modname_to_modpath (check_dpath, _isvalid),
modname_to_modpath, normalize_modpath, modpath_to_modname and split_modpath are
executed on CONCRETE path strings over a SYMBOLIC FILE SYSTEM: for every path
of a bounded skeleton under one search-path entry two solver Booleans (is a
directory / is a file) with the axioms of a tree (not both; a child exists =>
its parent is a directory).  os.path.exists / isfile / isdir read the table.
Oracle: the import system's path-based finder written as a formula part by
part (package = directory with __init__.py, else module file, else - PEP 420 -
a plain directory as namespace portion), its absence, the round trip
modpath_to_modname(modname_to_modpath(n)) == n and split_modpath.
import_restores (sys.path after import by path) is decided in C12.
"""
import z3
from .common import Harness, zbool, instrumented

PROPERTY = 'C17'
ROOT = '/xdvR'
NAMES = ['a', 'a.b', 'a.b.c', 'a_x', 'a.b_y', 'z', 'q__init__', 'a.r__main__']
BOUNDS = {'quick': 'skeleton of depth 3 under one sys.path entry (20 paths), queried names %r, hide_init / hide_main symbolic' % NAMES, 'thorough': 'same skeleton plus a second sys.path entry'}
OUTSIDE = 'real os / file systems (symbolic table instead), editable installs and egg-links (glob -> nothing), extension modules (no file with an extension-module suffix exists), zip imports, sys.meta_path hooks'
ASSUMPTIONS = ['glob finds no __editable__ finder / pth and no egg-link in the search path', 'no extension module files; realpath / abspath are the identity on the skeleton paths',
               'a path is a file or a directory, not both; a path that exists has a directory as parent']


def skeleton():
    """all paths of the bounded tree"""
    out = []
    for d in ('a', 'a/b', 'a/b/c'):
        out += [d, d + '.py', d + '/__init__.py', d + '/__main__.py']
    out += ['a_x.py', 'a_x', 'a/b_y.py', 'a/b_y', 'a/b_y/__init__.py', 'z.py']
    out += ['q__init__.py', 'a/r__main__.py']      # plain modules whose file names merely END like the special files
    return out


def jobs(tier):
    q = tier == 'quick'
    return [{'ob': 'resolution_agrees_with_finder', 'harness': 'fs', 'splits': [3, 6, 9, 12, 15], 'query_timeout_s': 60, 'two_entries': not q,
             'bounds': BOUNDS[tier]}]


class FS(Harness):
    witnesses = ('package_found', 'module_file_found', 'not_found', 'package_and_module_of_the_same_name', 'namespace_portion')

    def __init__(self, job):
        instrumented()
        from xdoctest.utils import util_import
        import glob
        self.ui = util_import
        self.job = job
        self.paths = skeleton()
        self.isdir = {p: z3.Bool('dir:' + p) for p in self.paths}
        self.isfile = {p: z3.Bool('file:' + p) for p in self.paths}
        # a second, independent file system state: the tree may change between two queries
        self.tables1 = (self.isdir, self.isfile)
        # the later tree = the first tree with ONE __init__.py removed (symbolic choice)
        self.removed = z3.Int('later_removed_init')
        cand = ['a/__init__.py', 'a/b/__init__.py']
        self.removed_cand = cand
        later_file = {p: (z3.And(self.isfile[p], self.removed != cand.index(p) + 1) if p in cand else self.isfile[p]) for p in self.paths}
        self.tables2 = (self.isdir, later_file)
        self.name = z3.Int('queried_name')
        self.hide_init = z3.Bool('hide_init')
        self.hide_main = z3.Bool('hide_main')
        self.base = [self.name >= 0, self.name < len(NAMES)]
        self.base += [self.removed >= 0, self.removed <= 2]
        for isdir, isfile in (self.tables1,):
            for p in self.paths:
                self.base.append(z3.Not(z3.And(isdir[p], isfile[p])))
                if p.endswith('.py'):
                    self.base.append(z3.Not(isdir[p]))
                else:
                    self.base.append(z3.Not(isfile[p]))
                if '/' in p:
                    parent = p.rsplit('/', 1)[0]
                    self.base.append(z3.Implies(z3.Or(isdir[p], isfile[p]), isdir[parent]))
        harness = self

        def rel(path):
            path = str(path)
            if path == ROOT:
                return ''
            if path.startswith(ROOT + '/'):
                return path[len(ROOT) + 1:]
            return None

        def look(table, path):
            from sea.core import SymBool
            r = rel(path)
            if r is None:
                return False
            if r == '':
                return table is harness.isdir
            if r not in table:
                return False
            return bool(SymBool(table[r]))
        util_import.exists = lambda p: look(harness.isdir, p) or look(harness.isfile, p)
        util_import.isfile = lambda p: look(harness.isfile, p)
        util_import.isdir = lambda p: look(harness.isdir, p)
        util_import.realpath = lambda p: p
        glob.glob = lambda *a, **k: []
        self.stubs = ['os.path.exists / isfile / isdir (as imported by util_import) -> the symbolic table', 'glob.glob -> []', 'realpath -> identity']

    # ---- the import system's finder as a formula over the table
    def finder(self, name):
        """-> (found: z3 Bool, kind/path choices as list of (cond, path, kind))"""
        parts = name.split('.')
        cur = ''
        ok = z3.BoolVal(True)
        res = []
        for i, part in enumerate(parts):
            d = (cur + '/' + part) if cur else part
            isd = self.isdir.get(d, z3.BoolVal(False))
            init = self.isfile.get(d + '/__init__.py', z3.BoolVal(False))
            pyf = self.isfile.get(d + '.py', z3.BoolVal(False))
            pkg = z3.And(isd, init)
            last = i == len(parts) - 1
            if last:
                res.append((z3.And(ok, pkg), d, 'package'))
                res.append((z3.And(ok, z3.Not(pkg), pyf), d + '.py', 'module'))
                res.append((z3.And(ok, z3.Not(pkg), z3.Not(pyf), isd), d, 'namespace'))
            else:
                # to go deeper the part must be a package (regular or namespace portion): a module file has no submodules
                ns = z3.And(isd, z3.Not(init), z3.Not(pyf))
                self._ns_used = z3.Or(getattr(self, '_ns_used', z3.BoolVal(False)), z3.And(ok, ns))
                ok = z3.And(ok, z3.Or(pkg, ns))
                cur = d
        return res

    def run(self, ex):
        from sea.core import SymBool, SymInt
        ui = self.ui
        name = NAMES[int(SymInt(self.name))]
        hide_init = bool(SymBool(self.hide_init))
        hide_main = bool(SymBool(self.hide_main))
        self._ns_used = z3.BoolVal(False)
        choices = self.finder(name)
        try:
            got = ui.modname_to_modpath(name, hide_init=hide_init, hide_main=hide_main, sys_path=[ROOT])
        except Exception as e:
            self.last_error = '%s: %s' % (type(e).__name__, e)
            return {'resolution_returns': z3.BoolVal(False)}
        props = {}
        conds = []
        found_any = z3.Or([c for c, p, k in choices if k != 'namespace'])
        ns_involved = z3.Or(self._ns_used, z3.Or([c for c, p, k in choices if k == 'namespace']))
        for c, p, k in choices:
            if k == 'namespace':
                continue
            exp = ROOT + '/' + p
            if k == 'package':
                if not hide_init:
                    exp_paths = [exp + '/__init__.py']
                else:
                    exp_paths = [exp]
                # hide_main False + hide_init True: "__main__.py will be returned for packages, if it exists" is documented but
                # not what the statement fixes: accept the directory or its __main__.py
                if hide_init and not hide_main:
                    exp_paths.append(exp + '/__main__.py')
            else:
                exp_paths = [exp]
            conds.append(z3.Implies(z3.And(c, z3.Not(self._ns_used)), z3.BoolVal(got in exp_paths)))
        # PEP 420 namespace portions are a known limitation (see known_findings.json): the claim is made for trees without them
        conds.append(z3.Implies(z3.And(z3.Not(found_any), z3.Not(ns_involved)), z3.BoolVal(got is None)))
        props['finds_what_the_import_system_finds'] = z3.And(conds)
        # namespace portions: reported separately so that the known finding can be recognised
        if 'K-C17-NS' not in self.job.get('exclude', []):
            props['namespace_portions_resolved'] = z3.Implies(z3.And(self._ns_used, found_any), z3.BoolVal(got is not None))
        if got is not None:
            # round trip and split
            try:
                back = ui.modpath_to_modname(got, hide_init=True, hide_main=True, check=True)
                dpath, relp = ui.split_modpath(got, check=True)
                props['round_trip_gives_the_same_name'] = z3.BoolVal(back == name)
                import os
                props['split_gives_search_dir_and_relative_path'] = z3.BoolVal(dpath == ROOT and os.path.join(dpath, relp) == got)
            except Exception as e:
                self.last_error = '%s: %s' % (type(e).__name__, e)
                props['round_trip_gives_the_same_name'] = z3.BoolVal(False)
        # split_modpath follows the CURRENT tree: ask for a/b.py, remove a/__init__.py, ask again
        from sea.core import SymBool as _SB
        if self.job.get('second_query', True) and name == 'a.b' and bool(_SB(self.isfile['a/b.py'])):
            try:
                first = ui.split_modpath(ROOT + '/a/b.py', check=True)
                self.isdir, self.isfile = self.tables2
                try:
                    second = ui.split_modpath(ROOT + '/a/b.py', check=True)
                    has_init = self.isfile['a/__init__.py']
                    props['split_modpath_follows_the_current_tree'] = z3.And(
                        z3.Implies(has_init, z3.BoolVal(second == (ROOT, 'a/b.py'))),
                        z3.Implies(z3.Not(has_init), z3.BoolVal(second == (ROOT + '/a', 'b.py'))))
                finally:
                    self.isdir, self.isfile = self.tables1
            except Exception as e:
                self.last_error = '%s: %s' % (type(e).__name__, e)
                props['split_modpath_follows_the_current_tree'] = z3.BoolVal(False)
        if self.job.get('second_query', True) and name in ('a.b', 'a.b.c') and got is not None:
            # the tree changes, then the same name is resolved again: the answer follows the NEW tree
            self.isdir, self.isfile = self.tables2
            try:
                self._ns_used = z3.BoolVal(False)
                ch2 = self.finder(name)
                got2 = ui.modname_to_modpath(name, hide_init=True, hide_main=True, sys_path=[ROOT])
                c2 = []
                for c, p, k in ch2:
                    if k == 'namespace':
                        continue
                    if got2 is not None:
                        back2 = ui.modpath_to_modname(got2, hide_init=True, hide_main=True, check=True)
                        d2, r2 = ui.split_modpath(got2, check=True)
                        c2.append(z3.Implies(z3.And(c, z3.Not(self._ns_used)), z3.BoolVal(got2 == ROOT + '/' + p and back2 == name and d2 == ROOT)))
                    else:
                        c2.append(z3.Implies(z3.And(c, z3.Not(self._ns_used)), z3.BoolVal(False)))
                props['second_query_after_the_tree_changed'] = z3.And(c2) if c2 else z3.BoolVal(True)
            except Exception as e:
                self.last_error = '%s: %s' % (type(e).__name__, e)
                props['second_query_after_the_tree_changed'] = z3.BoolVal(False)
            finally:
                self.isdir, self.isfile = self.tables1
        for c, p, k in choices:
            if k == 'package':
                ex.witness('package_found', z3.And(c, z3.Not(self._ns_used)))
                ex.witness('package_and_module_of_the_same_name', z3.And(c, self.isfile.get(p + '.py', z3.BoolVal(False))))
            if k == 'module':
                ex.witness('module_file_found', z3.And(c, z3.Not(self._ns_used)))
        ex.witness('not_found', z3.And(z3.Not(found_any), z3.Not(ns_involved)))
        ex.witness('namespace_portion', self._ns_used)
        return props

    def describe(self, model):
        def b(v):
            return z3.is_true(model.eval(v, model_completion=True))
        return {'harness': 'fs', 'name': NAMES[model.eval(self.name, model_completion=True).as_long()],
                'dirs': sorted(p for p in self.paths if b(self.isdir[p])), 'files': sorted(p for p in self.paths if b(self.isfile[p])),
                'later_dirs': sorted(p for p in self.paths if b(self.tables2[0][p])), 'later_files': sorted(p for p in self.paths if b(self.tables2[1][p])),
                'removed': model.eval(self.removed, model_completion=True).as_long(),
                'hide_init': b(self.hide_init), 'hide_main': b(self.hide_main)}


def build(job):
    return FS(job)


# ---------------------------------------------------------------- replay: a real tree against importlib's PathFinder

def replay(job, cex):
    import os
    import shutil
    import tempfile
    import importlib.machinery
    from xdoctest import utils
    d = tempfile.mkdtemp(prefix='xdv-c17-')
    try:
        for p in cex['dirs']:
            os.makedirs(os.path.join(d, p), exist_ok=True)
        for p in cex['files']:
            os.makedirs(os.path.dirname(os.path.join(d, p)), exist_ok=True)
            with open(os.path.join(d, p), 'w') as f:
                f.write('')
        name = cex['name']
        # the interpreter's answer, part by part, with the path based finder of each directory
        import importlib.machinery as M
        details = [(M.ExtensionFileLoader, M.EXTENSION_SUFFIXES), (M.SourceFileLoader, M.SOURCE_SUFFIXES), (M.SourcelessFileLoader, M.BYTECODE_SUFFIXES)]
        search = [d]
        spec = None
        ns_portion = False
        parts = name.split('.')
        for i in range(len(parts)):
            spec = None
            for sd in search:
                spec = M.FileFinder(sd, *details).find_spec(parts[i])
                if spec is not None:
                    break
            if spec is None:
                break
            if spec.submodule_search_locations is None:
                if i < len(parts) - 1:
                    spec = None
                break
            if spec.origin is None:
                ns_portion = True
            search = list(spec.submodule_search_locations)
        if spec is None:
            exp = None
        elif spec.origin is None:
            exp = 'NAMESPACE'
        elif os.path.basename(spec.origin) == '__init__.py':
            exp = os.path.dirname(spec.origin)
        else:
            exp = spec.origin
        got = utils.modname_to_modpath(name, hide_init=True, hide_main=True, sys_path=[d])
        bad = []
        if exp == 'NAMESPACE' or ns_portion:
            if got is None and exp is not None:
                bad.append('namespace-portion-not-resolved')
        elif got != exp:
            bad.append('differs-from-import-system')
        if got is not None:
            back = utils.modpath_to_modname(got, hide_init=True, hide_main=True)
            if back != name and not ns_portion:
                bad.append('round-trip')
        if not bad and 'a/b.py' in cex['files'] and cex.get('removed') == 1:
            first = utils.split_modpath(os.path.join(d, 'a', 'b.py'))
            if os.path.exists(os.path.join(d, 'a', '__init__.py')):
                os.remove(os.path.join(d, 'a', '__init__.py'))
            second = utils.split_modpath(os.path.join(d, 'a', 'b.py'))
            if second != (os.path.join(d, 'a'), 'b.py'):
                bad.append('stale-answer-after-tree-change')
            if first[0] == d:
                open(os.path.join(d, 'a', '__init__.py'), 'w').close()
        if not bad and cex.get('later_dirs') is not None and name in ('a.b', 'a.b.c'):
            # change the tree in place and resolve again
            for p in sorted(cex['files'] + cex['dirs'], key=len, reverse=True):
                full = os.path.join(d, p)
                if os.path.isdir(full):
                    shutil.rmtree(full, ignore_errors=True)
                elif os.path.exists(full):
                    os.remove(full)
            for p in cex['later_dirs']:
                os.makedirs(os.path.join(d, p), exist_ok=True)
            for p in cex['later_files']:
                os.makedirs(os.path.dirname(os.path.join(d, p)), exist_ok=True)
                open(os.path.join(d, p), 'w').close()
            got2 = utils.modname_to_modpath(name, hide_init=True, hide_main=True, sys_path=[d])
            if got2 is not None:
                chain_ok = all(os.path.exists(os.path.join(d, *name.split('.')[:i + 1], '__init__.py')) for i in range(len(name.split('.')) - 1))
                back2 = utils.modpath_to_modname(got2, hide_init=True, hide_main=True)
                if chain_ok and back2 != name:
                    bad.append('stale-answer-after-tree-change')
        return {'reproduced': bool(bad), 'detail': 'tree dirs=%r files=%r name=%r: importlib finds %r, xdoctest %r %s' % (cex['dirs'], cex['files'], name, exp, got, bad),
                'signature': 'C17:' + ','.join(bad)}
    finally:
        shutil.rmtree(d, ignore_errors=True)
