"""C10 - native runner tallies and exit status agree with the per-doctest outcomes.

Real code under the explorer: runner.doctest_module (gathering block, command
dispatch), runner._run_examples, runner._print_summary_report,
DocTest.is_disabled / valid_testnames / run / _post_run, and the tail of
__main__.main (real argparse, the summary's n_failed an UNBOUNDED solver
integer).  The list of collected doctests is a symbolic schedule: per doctest
its by-construction outcome (pass, fail by output, fail by exception, all
skipped, partly skipped, comment only), whether it is force-disabled, and the
command (all / list / a callname / callname:num).
"""
import types
import z3
from .common import Harness, zbool
from . import hrun

PROPERTY = 'C10'
OUTCOMES = ['pass', 'fail_output', 'fail_exception', 'all_skipped', 'partly_skipped', 'comment_only']
EXPECT = {'pass': 'passed', 'fail_output': 'failed', 'fail_exception': 'failed', 'all_skipped': 'skipped',
          'partly_skipped': 'passed', 'comment_only': 'skipped'}
BOUNDS = {'quick': 'n<=3 doctests (two of them share a callname), 6 outcomes x force-disabled x a look-alike of a disabling comment on a later line of the first doctest, commands all / list / callname / callname:num; exit status for every n_failed >= 0',
          'thorough': 'n<=4 doctests, without the look-alike comment'}
OUTSIDE = 'process level sys.exit plumbing (the value returned by main() is checked, and that it is 0 or 1); collection itself (C07)'
ASSUMPTIONS = ['core.parse_doctestables -> the symbolic list of doctests (collection is C07)', '_gather_zero_arg_examples -> nothing']


def jobs(tier):
    q = tier == 'quick'
    return [{'ob': 'tallies_and_selection', 'harness': 'run', 'n': 3 if q else 4, 'lookalike': q, 'splits': [3, 6, 9], 'query_timeout_s': 60,
             'bounds': BOUNDS[tier]},
            {'ob': 'exit_status', 'harness': 'exit', 'query_timeout_s': 60, 'bounds': 'n_failed any integer >= 0, commands all / a name'}]


class Tally(Harness):
    witnesses = ('all_with_disabled_and_failed', 'named_disabled_runs', 'only_skipped', 'list_runs_nothing', 'last_fails')

    def __init__(self, job):
        self.m = hrun.install()
        from xdoctest import runner, core
        self.runner, self.core = runner, core
        self.job = job
        N = self.N = job['n']
        self.count = z3.Int('n_doctests')
        self.out = [z3.Int('outcome%d' % i) for i in range(N)]
        self.dis = [z3.Bool('force_disabled%d' % i) for i in range(N)]
        # a comment on a LATER line that merely begins like one of the disabling markers (does not disable)
        self.look = [z3.Bool('lookalike_comment%d' % i) for i in range(N)]    # only the first doctest's is used (keeps the schedule small)
        self.cmd = z3.Int('command')          # 0 all, 1 list, 2+2i callname of i, 3+2i callname:num of i
        self.base = [self.count >= 1, self.count <= N, self.cmd >= 0, self.cmd < 2 + 2 * self.count]
        if not job.get('lookalike', True):
            self.base.append(z3.Not(self.look[0]))      # thorough tier: n = 4 without the look-alike comment (the doubled schedule was not validated end to end)
        for i in range(N):
            self.base += [self.out[i] >= 0, self.out[i] < len(OUTCOMES)]
        self.m['ins'].RT.STUBS['print'] = lambda *a, **k: None
        runner._gather_zero_arg_examples = lambda ident: []
        self.stubs = hrun.STUB_NOTES + ['core.parse_doctestables -> the symbolic doctest list', 'runner._gather_zero_arg_examples -> []', 'print -> dropped']

    def make(self, i, outcome, disabled, callname, num, lookalike=False):
        m = self.m
        D = m['directive']
        E = hrun.ENV
        head = '>>> # DISABLE_DOCTEST\n' if disabled else ''
        tail = '>>> # Disable the cache before the lookup\n>>> #failing lookups fall back\n' if lookalike else ''
        dt = m['doctest_example'].DocTest(head + '>>> x = %d\n' % i + tail, None, callname, num, 10 * (i + 1), mode='pytest')
        dt.config['colored'] = False
        base = 10 * i
        P = m['doctest_part'].DoctestPart

        def part(k, src, want=None, dirs=()):
            src = src + ' #%d#' % (base + k)
            return P([src], want_lines=want, line_offset=k, orig_lines=['>>> ' + src], directives=list(dirs))
        if outcome == 'pass':
            parts = [part(0, 'x = 1'), part(1, 'y = 2')]
        elif outcome == 'fail_output':
            parts = [part(0, 'x = 1'), part(1, 'print(x)', want=['2'])]
            E.behaviour[base + 1] = lambda code, glb: E.cap.write('1\n')
        elif outcome == 'fail_exception':
            parts = [part(0, 'x = 1'), part(1, 'raise KeyError')]
            E.behaviour[base + 1] = lambda code, glb, idx=base + 1: hrun.raise_in_doctest_frame(code, hrun.HarnessExc(idx))
        elif outcome == 'all_skipped':
            parts = [part(0, '# xdoctest: +SKIP', dirs=[D.Directive('SKIP', True, [], False)]), part(1, 'x = 1')]
        elif outcome == 'partly_skipped':
            parts = [part(0, 'x = 1', dirs=[D.Directive('SKIP', True, [], True)]), part(1, 'y = 2')]
        else:
            parts = [part(0, '# only a comment'), part(1, '# and another')]
        dt._parts = parts
        calls = []
        real_run = dt.run

        def counted(*a, **k):
            calls.append(1)
            return real_run(*a, **k)
        dt.run = counted
        return dt, calls

    def run(self, ex):
        from sea.core import SymBool, SymInt
        E = hrun.ENV
        E.reset()
        n = int(SymInt(self.count))
        cfgs, dts, calls = [], [], []
        for i in range(n):
            o = OUTCOMES[int(SymInt(self.out[i]))]
            d = bool(SymBool(self.dis[i]))
            la = i == 0 and bool(SymBool(self.look[i]))
            if la and not d and self.job.get('lookalike', True):
                ex.witness('lookalike_comment_on_a_later_line', True)
            # doctests 0 and 1 belong to the same callable (f:0, f:1), the others to g2, g3 ...
            callname, num = ('f', i) if i < 2 else ('g%d' % i, 0)
            dt, c = self.make(i, o, d, callname, num, la)
            cfgs.append((o, d, callname, num))
            dts.append(dt)
            calls.append(c)
        c = int(SymInt(self.cmd))
        if c == 0:
            command = 'all'
        elif c == 1:
            command = 'list'
        else:
            j = (c - 2) // 2
            command = cfgs[j][2] if (c - 2) % 2 == 0 else '%s:%d' % (cfgs[j][2], cfgs[j][3])
        self.core.parse_doctestables = lambda *a, **k: iter(dts)
        mod = types.ModuleType('m_under_test')
        mod.__file__ = '/nonexistent/m_under_test.py'
        logs = []
        import xdoctest.runner as R
        orig_log = R.log
        R.log = lambda msg, verbose, level=1: logs.append(str(msg))
        try:
            rs = self.runner.doctest_module(mod, command=command, argv=[], verbose=0, style='auto',
                                            config=self.m['doctest_example'].DoctestConfig())
        except Exception as e:
            self.last_error = '%s: %s' % (type(e).__name__, e)
            return {'doctest_module_returns': z3.BoolVal(False)}
        finally:
            R.log = orig_log
        ncalls = [len(x) for x in calls]
        props = {}
        if command == 'list':
            text = '\n'.join(logs)
            props['list_runs_nothing'] = z3.BoolVal(sum(ncalls) == 0 and rs.get('action') == 'list')
            props['list_names_every_doctest'] = z3.BoolVal(all(dt.unique_callname in text for dt in dts))
            ex.witness('list_runs_nothing', True)
            return props
        if command == 'all':
            sel = [i for i in range(n) if not cfgs[i][1]]
        else:
            sel = [i for i in range(n) if command in (cfgs[i][2], '%s:%d' % (cfgs[i][2], cfgs[i][3]))]
        props['each_selected_doctest_runs_exactly_once'] = z3.BoolVal(ncalls == [1 if i in sel else 0 for i in range(n)])
        exp = [EXPECT[cfgs[i][0]] for i in sel]
        if sel:
            props['tallies'] = z3.BoolVal(rs.get('n_total') == len(sel) and rs.get('n_passed') == exp.count('passed')
                                          and rs.get('n_failed') == exp.count('failed') and rs.get('n_skipped') == exp.count('skipped')
                                          and rs['n_passed'] + rs['n_failed'] + rs['n_skipped'] == rs['n_total'])
            props['failed_list_exact'] = z3.BoolVal([id(x) for x in rs.get('failed', [])] == [id(dts[i]) for i in sel if EXPECT[cfgs[i][0]] == 'failed'])
        else:
            props['nothing_selected_nothing_failed'] = z3.BoolVal(rs.get('n_failed', 0) == 0 and sum(ncalls) == 0)
        if command == 'all' and any(cfgs[i][1] for i in range(n)) and 'failed' in exp:
            ex.witness('all_with_disabled_and_failed', True)
        if command != 'all' and sel and all(cfgs[i][1] for i in sel):
            ex.witness('named_disabled_runs', True)
        if sel and all(e == 'skipped' for e in exp):
            ex.witness('only_skipped', True)
        if sel and exp[-1] == 'failed' and len(sel) >= 2:
            ex.witness('last_fails', True)
        return props

    def describe(self, model):
        def n(v):
            return model.eval(v, model_completion=True).as_long()
        cnt = n(self.count)
        docs = [{'outcome': OUTCOMES[n(self.out[i])], 'force_disabled': z3.is_true(model.eval(self.dis[i], model_completion=True)), 'lookalike': i == 0 and z3.is_true(model.eval(self.look[i], model_completion=True)),
                 'name': ('f:%d' % i) if i < 2 else 'g%d:0' % i} for i in range(cnt)]
        c = n(self.cmd)
        if c == 0:
            command = 'all'
        elif c == 1:
            command = 'list'
        else:
            j = (c - 2) // 2
            command = docs[j]['name'].split(':')[0] if (c - 2) % 2 == 0 else docs[j]['name']
        return {'harness': 'run', 'doctests': docs, 'command': command}


class ExitStatus(Harness):
    witnesses = ('some_failed', 'none_failed')

    def __init__(self, job):
        from .common import instrumented
        instrumented()
        import xdoctest
        from xdoctest import __main__ as xmain
        self.xdoctest, self.xmain = xdoctest, xmain
        self.nf = z3.Int('n_failed')
        self.haskey = z3.Bool('summary_has_n_failed')
        self.base = [self.nf >= 0]
        from sea import instrument
        instrument.RT.STUBS['print'] = lambda *a, **k: None
        self.stubs = ['xdoctest.doctest_module -> returns a run summary whose n_failed is the solver integer']

    def run(self, ex):
        from sea.core import SymInt, SymBool
        has = bool(SymBool(self.haskey))
        summ = {'action': 'run_examples', 'n_failed': SymInt(self.nf)} if has else {'action': 'list'}
        self.xdoctest.doctest_module = lambda *a, **k: summ
        try:
            rc = self.xmain.main(argv=['xdoctest', 'some_module', 'all'])
        except SystemExit as e:
            rc = e.code
        except Exception as e:
            self.last_error = '%s: %s' % (type(e).__name__, e)
            return {'main_returns': z3.BoolVal(False)}
        exp = z3.And(z3.BoolVal(has), self.nf > 0)
        if isinstance(rc, SymInt):
            # the status is computed from the symbolic count: it must still be exactly 0 or 1
            ex.witness('some_failed', exp)
            ex.witness('none_failed', z3.Not(exp))
            return {'nonzero_iff_some_failed': rc.e == z3.If(exp, 1, 0)}
        ok = isinstance(rc, int) and not isinstance(rc, bool) and rc in (0, 1)
        if not ok:
            return {'exit_status_is_0_or_1': z3.BoolVal(False)}
        ex.witness('some_failed', exp)
        ex.witness('none_failed', z3.Not(exp))
        return {'nonzero_iff_some_failed': exp == z3.BoolVal(rc == 1)}

    def describe(self, model):
        return {'harness': 'exit', 'n_failed': model.eval(self.nf, model_completion=True).as_long(),
                'has_key': z3.is_true(model.eval(self.haskey, model_completion=True))}


def build(job):
    return Tally(job) if job['harness'] == 'run' else ExitStatus(job)


# ---------------------------------------------------------------- replay: a real module file through the public API

SRC = {
    'pass': '>>> x = 1\n>>> y = 2',
    'fail_output': '>>> x = 1\n>>> print(x)\n2',
    'fail_exception': '>>> x = 1\n>>> raise KeyError("boom")',
    'all_skipped': '>>> # xdoctest: +SKIP\n>>> x = 1',
    'partly_skipped': '>>> x = 1  # xdoctest: +SKIP\n>>> y = 2',
    'comment_only': '>>> # only a comment\n>>> # and another',
}


def replay(job, cex):
    import os
    import shutil
    import subprocess
    import sys
    import tempfile
    if cex.get('harness') == 'exit':
        from xdoctest import __main__ as xmain
        import xdoctest
        summ = {'action': 'run_examples', 'n_failed': cex['n_failed']} if cex['has_key'] else {'action': 'list'}
        orig = xdoctest.doctest_module
        xdoctest.doctest_module = lambda *a, **k: summ
        try:
            rc = xmain.main(argv=['xdoctest', 'some_module', 'all'])
        except SystemExit as e:
            rc = e.code
        finally:
            xdoctest.doctest_module = orig
        exp = 1 if (cex['has_key'] and cex['n_failed'] > 0) else 0
        return {'reproduced': rc != exp, 'detail': 'main() returned %r for n_failed=%r, expected %r' % (rc, cex.get('n_failed'), exp),
                'signature': 'C10:exit-status'}
    d = tempfile.mkdtemp(prefix='xdv-c10-')
    try:
        docs = cex['doctests']
        # f has two Example blocks (f:0, f:1), the others one each
        def block(doc):
            body = SRC[doc['outcome']]
            if doc['force_disabled']:
                body = '>>> # DISABLE_DOCTEST\n' + body
            if doc.get('lookalike'):
                body = body + '\n>>> # Disable the cache before the lookup\n>>> #failing lookups fall back'
            return '    Example:\n' + '\n'.join('        ' + l for l in body.split('\n')) + '\n'
        src = 'def f():\n    """\n' + ''.join(block(x) + '\n' for x in docs[:2]) + '    """\n\n'
        for i, x in enumerate(docs[2:], start=2):
            src += 'def g%d():\n    """\n%s    """\n\n' % (i, block(x))
        path = os.path.join(d, 'm_c10_replay.py')
        with open(path, 'w') as f:
            f.write(src)
        import xdoctest
        cmd = cex['command']
        import io
        import contextlib
        buf = io.StringIO()
        with contextlib.redirect_stdout(buf):
            rs = xdoctest.doctest_module(path, command=cmd, argv=[], verbose=1 if cmd == 'list' else 0)   # the listing is printed at verbosity >= 1
        out = buf.getvalue()
        bad = []
        if cmd == 'list':
            for x in docs:
                if x['name'] not in out:
                    bad.append('list-misses-' + x['name'])
        else:
            if cmd == 'all':
                sel = [x for x in docs if not x['force_disabled']]
            else:
                sel = [x for x in docs if cmd in (x['name'], x['name'].split(':')[0])]
            exp = [EXPECT[x['outcome']] for x in sel]
            got = (rs.get('n_total', 0), rs.get('n_passed', 0), rs.get('n_failed', 0), rs.get('n_skipped', 0))
            want = (len(sel), exp.count('passed'), exp.count('failed'), exp.count('skipped'))
            if sel and got != want:
                bad.append('tallies %r != %r' % (got, want))
            if not sel and rs.get('n_total', 0) != 0:
                bad.append('ran-something')
            # exit status of the real command line
            p = subprocess.run([sys.executable, '-m', 'xdoctest', path, cmd], capture_output=True, text=True,
                               env=dict(os.environ, PYTHONPATH=os.pathsep.join(sys.path)), cwd=d)
            if (p.returncode != 0) != (exp.count('failed') > 0):
                bad.append('exit-status %d' % p.returncode)
        return {'reproduced': bool(bad), 'detail': 'module %r command %r: %s' % (src, cmd, bad),
                'signature': 'C10:' + ','.join(b.split()[0] for b in bad)}
    finally:
        shutil.rmtree(d, ignore_errors=True)
