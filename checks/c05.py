"""C05 - output matching equals the documented relation for every flag combination.

The REAL pipeline checker.check_output -> normalize (strip_ansi, the two prefix
regexes, remove_blankline_marker, TRAILING_WS, rstrip, splitlines+visible_text,
split/join, IGNORE_WHITESPACE regex, norm_repr) -> _check_match ->
_ellipsis_match is executed symbolically on symbolic got / want and symbolic
flags in a real RuntimeState.  The documented relation is decided as the
conjunction the statement spells out:

  identity        got == want  =>  match, all 32 flag settings
  strict_exact    every leniency off  =>  match <=> equal after deleting blanks
                  before line ends and trailing whitespace
  mono_<flag>     match under c  =>  match under c + leniency (the
                  implementation against itself, the other flags symbolic)
  no_false_match  the non-whitespace characters of got and want differ and the
                  want has no wildcard => no match under any flag setting
  ansi / blankline / prefix   the removals are honoured: inserting an ANSI CSI
                  sequence, a <BLANKLINE> line (flag permitting) or a string
                  prefix letter does not change the verdict
"""
import z3
from .common import Harness, zbool, instrumented, mkstate

PROPERTY = 'C05'
FLAGS = ['ELLIPSIS', 'NORMALIZE_WHITESPACE', 'IGNORE_WHITESPACE', 'NORMALIZE_REPR', 'DONT_ACCEPT_BLANKLINE']
LENIENT = {'ELLIPSIS': True, 'NORMALIZE_WHITESPACE': True, 'IGNORE_WHITESPACE': True, 'NORMALIZE_REPR': True}
# characters excluded from the general alphabet: exotic line breaks (\x0b \x0c \r \x1c-\x1e: the carriage
# return line erasure is not part of the documented relation), ESC (ANSI), and for some obligations quotes / '<'
EXOTIC = [11, 12, 13, 28, 29, 30, 27]

BOUNDS = {
    'quick': 'identity: |text|<=4, all flags symbolic; strict_exact |got|,|want|<=4; mono_* and no_false_match |got|,|want|<=3; inserts: halves <=2 around the concrete insert',
    'thorough': 'identity |text|<=6; strict_exact <=5; identity with tokens: halves <=2; the rest as quick',
}
OUTSIDE = ('non-ASCII; \\r and the exotic line-break characters (carriage-return line erasure is not part of the documented relation); '
           'texts longer than the bounds; literal "<BLANKLINE>" inside got (only as an inserted want line)')
ASSUMPTIONS = ['characters 1..127 minus \\x0b \\x0c \\r \\x1c \\x1d \\x1e and ESC (except in the ANSI obligation)',
               'strict_exact / no_false_match: no quote characters and no "<" (prefix stripping, repr quotes and <BLANKLINE> have their own obligations)',
               '"want without wildcards" = the non-whitespace characters of the want do not contain three consecutive dots']


def jobs(tier):
    q = tier == 'quick'
    out = []

    def add(ob, **kw):
        out.append(dict({'ob': ob, 'query_timeout_s': 120 if q else 900, 'splits': [2, 4]}, **kw))
    add('identity', cap=4 if q else 6, bounds='|got|=|want|<=%d, 5 flags symbolic' % (4 if q else 6))
    add('identity_with_removable_tokens', cap=1 if q else 2, splits=[3, 6, 9], bounds='text = L + token + R with token in {<BLANKLINE> line, ANSI colour code, u-prefix, b-prefix, "..."}; |L|,|R|<=%d over {a, space, newline, dot}, 5 flags symbolic' % (1 if q else 2))
    add('removals_compose', cap=2, splits=[3, 6, 9], bounds='got = [ANSI colour][u|b prefix] quote text quote [ANSI reset], want = quote text quote; text <=2 characters over {a, c, space}; 5 flags symbolic (forked)')
    add('strict_exact', cap=4 if q else 5, bounds='|got|,|want|<=%d, all leniencies off' % (4 if q else 5))
    for f in LENIENT:
        # quick: the other leniencies off; thorough: ELLIPSIS / NORMALIZE_WHITESPACE of the others symbolic too
        add('mono_' + f, flag=f, cap=3, others='off',
            bounds='|got|,|want|<=3, other leniencies off')
    add('no_false_match', cap=3, bounds='|got|,|want|<=3, 5 flags symbolic')
    for ins in ('prefix',):
        add('insert_' + ins, ins=ins, cap=1, bounds='symbolic halves <=1 character around the insert, leniencies off')
    for j in out:
        j['job_timeout_s'] = 500 if q else 3000
    return out


def ref_strict(s):
    """delete blanks (space/tab) that are followed only by blanks up to the
    line end, then strip trailing whitespace (independent of the regexes)"""
    from sea.symstr import compact_emits
    n = s.nz()
    cap = s.cap
    dead = [None] * (cap + 1)
    dead[cap] = z3.BoolVal(True)
    for i in reversed(range(cap)):
        sp = z3.Or(s.cs[i] == 32, s.cs[i] == 9)
        dead[i] = z3.If(i >= n, z3.BoolVal(True), z3.If(s.cs[i] == 10, z3.BoolVal(True), z3.If(sp, dead[i + 1], z3.BoolVal(False))))
    emits = []
    for i in range(cap):
        sp = z3.Or(s.cs[i] == 32, s.cs[i] == 9)
        emits.append((z3.And(i < n, z3.Not(z3.And(sp, dead[i]))), s.cs[i]))
    return compact_emits(emits, cap).rstrip()


def nonws(s):
    from sea.symstr import compact_emits, _isws
    n = s.nz()
    return compact_emits([(z3.And(i < n, z3.Not(_isws(s.cs[i]))), s.cs[i]) for i in range(s.cap)], s.cap)


class Base(Harness):
    def setup(self, job, gcap, wcap, exclude=(), minw=1, alphabet=None):
        instrumented()
        from sea.symstr import SymStr
        from xdoctest import checker, directive
        self.checker, self.directive = checker, directive
        self.job = job
        ex = [chr(c) for c in EXOTIC] + list(exclude)
        self.G, c1 = SymStr.fresh('g', gcap, alphabet, exclude=ex)
        self.W, c2 = SymStr.fresh('w', wcap, alphabet, exclude=ex, minlen=minw)
        self.base = c1 + c2
        self.fl = {k: z3.Bool(k) for k in FLAGS}

    def state(self, **fixed):
        from sea.core import SymBool
        vals = {k: SymBool(v) for k, v in self.fl.items()}
        vals.update(fixed)
        return mkstate(self.directive, **vals)

    def flagvals(self, m):
        return {k: z3.is_true(m.eval(v, model_completion=True)) for k, v in self.fl.items()}

    def describe(self, m):
        return {'got': self.G.concrete(m), 'want': self.W.concrete(m), 'flags': self.flagvals(m), 'ob': self.job['ob']}


class Identity(Base):
    witnesses = ('nontrivial_text',)

    def __init__(self, job):
        self.setup(job, job['cap'], job['cap'])
        # identical texts; built as two strings so that the shortcut has to be taken by the code
        self.base.append(zbool(self.G == self.W))

    def run(self, ex):
        r = self.checker.check_output(self.G, self.W, self.state())
        ex.witness('nontrivial_text', self.G.nz() >= 2)
        return zbool(r)


TOKENS = ['\n<BLANKLINE>\n', '<BLANKLINE>', '\x1b[31m', "u'", 'b"', '...', ' ']


class IdentityTokens(Base):
    """identical texts that contain the tokens the normalisation removes"""
    witnesses = ('token_blankline', 'token_ansi')

    def __init__(self, job):
        self.setup(job, job['cap'], job['cap'], minw=0, alphabet='a \n.')
        self.tok = z3.Int('token')
        self.base += [self.tok >= 0, self.tok < len(TOKENS)]

    def run(self, ex):
        from sea.core import SymInt
        t = TOKENS[int(SymInt(self.tok))]
        from sea.core import SymBool
        # the two halves are concretised by forking over their feasible values:
        # on a tree without the identity shortcut every path is then a cheap
        # concrete run of the whole pipeline
        L, R = self.G.concretize(), self.W.concretize()
        a = L + t + R
        b = L + t + R
        # flags forked up front (concrete in the state): keeps every path cheap
        fl = {k: bool(SymBool(v)) for k, v in self.fl.items()}
        r = self.checker.check_output(a, b, self.state(**fl))
        r = bool(r)
        if 'BLANKLINE' in t:
            ex.witness('token_blankline', True)
        if t.startswith('\x1b'):
            ex.witness('token_ansi', True)
        return zbool(r)

    def describe(self, m):
        t = TOKENS[m.eval(self.tok, model_completion=True).as_long()]
        txt = self.G.concrete(m) + t + self.W.concrete(m)
        return {'got': txt, 'want': txt, 'flags': self.flagvals(m), 'ob': 'identity'}


class Compose(Base):
    """the removals compose: a colour code directly in front of a prefixed literal"""
    witnesses = ('ansi_then_prefix',)

    def __init__(self, job):
        # (no prefix letters inside the literal: a one-letter string 'b' / 'u' is itself mistaken for a prefix by the
        # regexes - observed quirk, DESIGN.md section 7)
        self.setup(job, job['cap'], 1, minw=0, alphabet='ac ')
        self.a = z3.Bool('ansi_before')
        self.r = z3.Bool('ansi_reset_after')
        self.p = z3.Int('prefix_letter')
        self.q = z3.Bool('double_quote')
        self.base += [self.p >= 0, self.p <= 2]

    def run(self, ex):
        from sea.core import SymBool, SymInt
        L = self.G.concretize()
        a = '\x1b[31m' if bool(SymBool(self.a)) else ''
        r = '\x1b[0m' if bool(SymBool(self.r)) else ''
        pfx = ['', 'u', 'b'][int(SymInt(self.p))]
        q = '"' if bool(SymBool(self.q)) else "'"
        fl = {k: bool(SymBool(v)) for k, v in self.fl.items()}
        got = a + pfx + q + L + q + r
        want = q + L + q
        res = bool(self.checker.check_output(got, want, self.state(**fl)))
        if a and pfx:
            ex.witness('ansi_then_prefix', True)
        self._last = (got, want)
        return zbool(res)

    def describe(self, m):
        L = self.G.concrete(m)
        a = '\x1b[31m' if z3.is_true(m.eval(self.a, model_completion=True)) else ''
        r = '\x1b[0m' if z3.is_true(m.eval(self.r, model_completion=True)) else ''
        pfx = ['', 'u', 'b'][m.eval(self.p, model_completion=True).as_long()]
        q = '"' if z3.is_true(m.eval(self.q, model_completion=True)) else "'"
        return {'got': a + pfx + q + L + q + r, 'want': q + L + q, 'flags': self.flagvals(m), 'ob': 'removals_compose'}


class Strict(Base):
    witnesses = ('match_differing_texts', 'mismatch')

    def __init__(self, job):
        self.setup(job, job['cap'], job['cap'], exclude='\'"<')

    def run(self, ex):
        rs = self.state(ELLIPSIS=False, NORMALIZE_WHITESPACE=False, IGNORE_WHITESPACE=False, NORMALIZE_REPR=False, DONT_ACCEPT_BLANKLINE=True)
        a = zbool(self.checker.check_output(self.G, self.W, rs))
        r = zbool(ref_strict(self.G) == ref_strict(self.W))
        ex.witness('match_differing_texts', z3.And(a, zbool(self.G != self.W)))
        ex.witness('mismatch', z3.Not(a))
        return a == r


class Mono(Base):
    witnesses = ('match_only_with_leniency', 'match_in_both')

    def __init__(self, job):
        self.setup(job, job['cap'], job['cap'], exclude='<')

    def run(self, ex):
        f = self.job['flag']
        fixed = {'DONT_ACCEPT_BLANKLINE': True}
        sym = {'off': (), 'some': ('ELLIPSIS', 'NORMALIZE_WHITESPACE')}[self.job.get('others', 'off')]
        for k in LENIENT:
            if k != f and k not in sym:
                fixed[k] = False
        a = self.checker.check_output(self.G, self.W, self.state(**dict(fixed, **{f: False})))
        if not a:
            b = self.checker.check_output(self.G, self.W, self.state(**dict(fixed, **{f: True})))
            if b:
                ex.witness('match_only_with_leniency', True)
            return True
        b = self.checker.check_output(self.G, self.W, self.state(**dict(fixed, **{f: True})))
        ex.witness('match_in_both', zbool(self.G != self.W))
        return zbool(b)


class NoFalse(Base):
    witnesses = ('texts_differ_only_in_whitespace_match', 'differ')

    def __init__(self, job):
        self.setup(job, job['cap'], job['cap'], exclude='\'"<')

    def run(self, ex):
        a = zbool(self.checker.check_output(self.G, self.W, self.state()))
        ng, nw = nonws(self.G), nonws(self.W)
        differ = zbool(ng != nw)
        nowild = z3.Not(zbool(nw.contains('...')))
        ex.witness('texts_differ_only_in_whitespace_match', z3.And(a, zbool(self.G != self.W)))
        ex.witness('differ', z3.And(differ, nowild, self.G.nz() > 0))
        return z3.Implies(z3.And(differ, nowild), z3.Not(a))


class Insert(Base):
    """the verdict does not change when a removable token is inserted"""
    witnesses = ('verdict_true', 'verdict_false')

    def __init__(self, job):
        ins = job['ins']
        ex = '\'"<' if ins != 'prefix' else '<'
        self.setup(job, 2 * job['cap'], 2 * job['cap'], exclude=ex, minw=1)
        from sea.symstr import SymStr
        self.cut = z3.Int('cut')
        self.side = z3.Bool('insert_in_got')
        self.base += [self.cut >= 0]

    def run(self, ex):
        from sea.core import SymBool, SymInt
        ins = self.job['ins']
        fixed = {'ELLIPSIS': False, 'NORMALIZE_WHITESPACE': False, 'IGNORE_WHITESPACE': False, 'NORMALIZE_REPR': False,
                 'DONT_ACCEPT_BLANKLINE': True}
        side_got = bool(SymBool(self.side))
        tgt = self.G if side_got else self.W
        ex.assume(self.cut <= tgt.nz())
        cut = int(SymInt(self.cut))           # forked: every position before the insert is concrete
        left, right = tgt[:cut], tgt[cut:]
        if ins == 'ansi':
            token = '\x1b[31m'
        elif ins == 'blankline':
            # a want line consisting of the marker (the flag must accept it); only the want side
            if side_got:
                ex.assume(False)
            fixed['DONT_ACCEPT_BLANKLINE'] = False
            fixed['NORMALIZE_WHITESPACE'] = True       # line structure is normalised away, so "an empty line" needs no spec
            token = '\n<BLANKLINE>\n'
            ex.assume(z3.And(left.nz() > 0, right.nz() > 0))
        else:
            # a u/b prefix letter directly before a quote, at the start or after a non-word character
            token = 'u'
            ex.assume(z3.Or(right.at(0) == ord("'"), right.at(0) == ord('"')))
            wordch = z3.Or(z3.And(left.at(left.nz() - 1) >= 48, left.at(left.nz() - 1) <= 57),
                           z3.And(left.at(left.nz() - 1) >= 65, left.at(left.nz() - 1) <= 90),
                           z3.And(left.at(left.nz() - 1) >= 97, left.at(left.nz() - 1) <= 122), left.at(left.nz() - 1) == 95)
            ex.assume(z3.Or(left.nz() == 0, z3.Not(wordch)))
        mod = left + token + right
        g2, w2 = (mod, self.W) if side_got else (self.G, mod)
        if ins == 'blankline':
            # the reference text has a plain line break where the marker line is inserted
            base_w = left + '\n' + right
            a = zbool(self.checker.check_output(self.G, base_w, self.state(**fixed)))
        else:
            a = zbool(self.checker.check_output(self.G, self.W, self.state(**fixed)))
        b = zbool(self.checker.check_output(g2, w2, self.state(**fixed)))
        ex.witness('verdict_true', a)
        ex.witness('verdict_false', z3.Not(a))
        self._last = (side_got,)
        return a == b

    def describe(self, m):
        d = Base.describe(self, m)
        d.update(insert=self.job['ins'], cut=m.eval(self.cut, model_completion=True).as_long(),
                 insert_in_got=z3.is_true(m.eval(self.side, model_completion=True)))
        return d


def build(job):
    ob = job['ob']
    if ob == 'identity':
        return Identity(job)
    if ob == 'identity_with_removable_tokens':
        return IdentityTokens(job)
    if ob == 'removals_compose':
        return Compose(job)
    if ob == 'strict_exact':
        return Strict(job)
    if ob.startswith('mono_'):
        return Mono(job)
    if ob == 'no_false_match':
        return NoFalse(job)
    return Insert(job)


# ---------------------------------------------------------------- model validation (regex / string models vs CPython)

def validation_jobs(tier):
    return [{'ob': 'validate_normalize_models', 'maxlen': 4 if tier == 'quick' else 5}]


def validate(job):
    import re
    instrumented()
    from sea import validate as V
    from sea.symre import SymPattern
    from xdoctest import checker
    from xdoctest.utils import util_str
    total, bad = 0, []
    pats = [(checker.unicode_literal_re.pattern, checker.unicode_literal_re.flags, r'\1\2', "u'a ("),
            (checker.bytes_literal_re.pattern, checker.bytes_literal_re.flags, r'\1\2', "bR\"a."),
            (checker.TRAILING_WS.pattern, checker.TRAILING_WS.flags, '', " \ta\n"),
            (r'\s', re.MULTILINE, '', " \ta\n"),
            (r'(\x9B|\x1B\[)[0-?]*[ -/]*[@-~]', re.IGNORECASE, '', "\x1b[3;m a")]
    for pat, fl, repl, alph in pats:
        P = SymPattern(pat, fl)
        smp = V.strings(alph, job['maxlen'], limit=1500, seed=job.get('seed', 0))
        n, b = V.validate(lambda s: P.sub(repl, s), lambda s: re.sub(pat, repl, s, flags=fl), [job['maxlen']], smp)
        total += n
        bad += b
    smp = V.strings(' a\n\t', job['maxlen'])
    from sea.symstr import sym_join
    for fn, rf in ((lambda s: sym_join(' ', s.split()), lambda s: ' '.join(s.split())), (lambda s: s.rstrip(), lambda s: s.rstrip()),
                   (lambda s: sym_join('', s.splitlines(True)), lambda s: ''.join(s.splitlines(True)))):
        n, b = V.validate(fn, rf, [job['maxlen']], smp, alphabet=' a\n\t')
        total += n
        bad += b
    from sea.core import SymBool
    n, b = V.validate(lambda s: ref_strict(s), _py_strict, [job['maxlen']], smp, alphabet=' a\n\t')
    return total + n, bad + b


def _py_strict(s):
    import re
    return re.sub(r'[ \t]+(?=\n|$)', '', s).rstrip()


# ---------------------------------------------------------------- replay

def _real(got, want, flags):
    from xdoctest import checker, directive
    rs = directive.RuntimeState()
    for k, v in flags.items():
        rs[k] = v
    return bool(checker.check_output(got, want, rs))


def replay(job, cex):
    got, want, flags = cex['got'], cex['want'], dict(cex['flags'])
    ob = cex['ob']
    if ob == 'identity':
        r = _real(got, got, flags)
        return {'reproduced': not r, 'detail': 'check_output(%r, same text, %r) = %s' % (got, flags, r), 'signature': 'C05:identity'}
    if ob == 'removals_compose':
        r = _real(got, want, flags)
        return {'reproduced': not r, 'detail': 'check_output(%r, %r, %r) = %s: colour code + prefix letter + quotes are all removable' % (got, want, flags, r),
                'signature': 'C05:removals-compose'}
    if ob == 'strict_exact':
        flags.update(ELLIPSIS=False, NORMALIZE_WHITESPACE=False, IGNORE_WHITESPACE=False, NORMALIZE_REPR=False, DONT_ACCEPT_BLANKLINE=True)
        r = _real(got, want, flags)
        e = _py_strict(got) == _py_strict(want)
        return {'reproduced': r != e, 'detail': 'strict check_output(%r, %r) = %s, reference = %s' % (got, want, r, e), 'signature': 'C05:strict'}
    if ob.startswith('mono_'):
        f = ob[5:]
        flags['DONT_ACCEPT_BLANKLINE'] = True
        sym = {'off': (), 'some': ('ELLIPSIS', 'NORMALIZE_WHITESPACE')}[job.get('others', 'off')]
        for k in LENIENT:
            if k != f and k not in sym:
                flags[k] = False
        a = _real(got, want, dict(flags, **{f: False}))
        b = _real(got, want, dict(flags, **{f: True}))
        return {'reproduced': a and not b, 'detail': 'check_output(%r, %r) with %s off = %s, on = %s (other flags %r)' % (got, want, f, a, b, flags),
                'signature': 'C05:mono:' + f}
    if ob == 'no_false_match':
        r = _real(got, want, flags)
        ng, nw = ''.join(got.split()), ''.join(want.split())
        bad = r and ng != nw and '...' not in nw
        return {'reproduced': bad, 'detail': 'check_output(%r, %r, %r) = %s although the non-whitespace characters differ' % (got, want, flags, r),
                'signature': 'C05:false-match'}
    ins = cex['insert']
    flags.update(ELLIPSIS=False, NORMALIZE_WHITESPACE=False, IGNORE_WHITESPACE=False, NORMALIZE_REPR=False, DONT_ACCEPT_BLANKLINE=True)
    cut = cex['cut']
    side = cex['insert_in_got']
    tgt = got if side else want
    left, right = tgt[:cut], tgt[cut:]
    if ins == 'ansi':
        mod = left + '\x1b[31m' + right
        a = _real(got, want, flags)
    elif ins == 'blankline':
        flags.update(DONT_ACCEPT_BLANKLINE=False, NORMALIZE_WHITESPACE=True)
        mod = left + '\n<BLANKLINE>\n' + right
        a = _real(got, left + '\n' + right, flags)
    else:
        mod = left + 'u' + right
        a = _real(got, want, flags)
    g2, w2 = (mod, want) if side else (got, mod)
    b = _real(g2, w2, flags)
    return {'reproduced': a != b, 'detail': 'verdict %s without the %s insert, %s with it: got=%r want=%r -> got=%r want=%r flags=%r' % (a, ins, b, got, want, g2, w2, flags),
            'signature': 'C05:insert:' + ins}
