"""C15 - the pytest plugin and the native runner give the same verdict for every doctest.

Differential symbolic execution of the two verdict derivations over ONE
symbolic doctest: plugin.XDoctestItem.runtest (called on a minimal item that
carries the doctest; DocTest.run in mode 'pytest' with on_error='raise',
pytest.skip / anything_ran) against the native classification
(runner._run_examples over DocTest.run in mode 'native' with
on_error='return', summary flags), plus the option plumbing of both front
ends (the plugin's NamespaceLike and the command line namespace through the
same DoctestConfig._populate_from_cli).
"""
import z3
from .common import Harness, zbool
from . import hrun

PROPERTY = 'C15'
EVENTS = ['plain', 'want_ok', 'want_bad', 'raise', 'expected_exception', 'exit_test', 'comment', 'block+SKIP', 'block-SKIP',
          'inline+SKIP', 'block+REQUIRES', 'inline+REQUIRES', 'bad_directive', 'compile_error', 'pytest_skip_in_body']
BOUNDS = {'quick': 'k=3 events per doctest from a menu of %d, force-disable marker none / DISABLE_DOCTEST / pytest.skip, options from a menu' % len(EVENTS),
          'thorough': 'k=4 events'}
OUTSIDE = 'pytest collection / session objects, fixtures, -rA report formatting, process exit status of pytest itself (its own contract); collection is the same function core.parse_doctestables in both front ends (C07)'
ASSUMPTIONS = ['outcome class under pytest: Skipped raised => skipped, any other exception => failed, normal return => passed (pytest\'s contract for Item.runtest)']
ARG_UNMET = 'env:XDV_C15_UNMET==1'
HEADS = ['', '>>> # DISABLE_DOCTEST\n', '>>> # pytest.skip\n']


def jobs(tier):
    q = tier == 'quick'
    return [{'ob': 'same_outcome_class', 'harness': 'diff', 'k': 3 if q else 4, 'splits': [3, 6, 9, 12], 'query_timeout_s': 60, 'bounds': BOUNDS[tier]},
            {'ob': 'same_option_plumbing', 'harness': 'opts', 'splits': [3], 'query_timeout_s': 60,
             'bounds': 'options string from a menu of 6, colored / verbose / reportchoice / offset_linenos from small menus'}]


class Diff(Harness):
    witnesses = ('both_skipped', 'both_failed', 'both_passed', 'force_disabled', 'exit_test_first')

    def __init__(self, job):
        import os
        self.m = hrun.install()
        from xdoctest import plugin, runner
        self.plugin, self.runner = plugin, runner
        os.environ.pop('XDV_C15_UNMET', None)
        self.job = job
        K = self.K = job['k']
        self.ev = [z3.Int('event%d' % i) for i in range(K)]
        self.head = z3.Int('force_disable_marker')
        self.base = [self.head >= 0, self.head < len(HEADS)]
        for i in range(K):
            self.base += [self.ev[i] >= 0, self.ev[i] < len(EVENTS)]
        self.m['ins'].RT.STUBS['print'] = lambda *a, **k: None
        ck = self.m['checker']
        ck.normalize = lambda g, w, rs=None: (g, w)
        ck._check_match = lambda g, w, rs: (g == w)
        self.stubs = hrun.STUB_NOTES + ['checker match -> equality', 'print -> dropped', 'pytest item -> minimal object with the attribute dtest']

    def build(self, evs, head, mode, base):
        m = self.m
        D = m['directive']
        E = hrun.ENV
        P = m['doctest_part'].DoctestPart
        parts = []
        for i, e in enumerate(evs):
            idx = base + i
            dirs, want, code = [], None, True
            if e.startswith('block') or e == 'comment':
                code = False
            if e.endswith('+SKIP'):
                dirs = [D.Directive('SKIP', True, [], e.startswith('inline'))]
            elif e.endswith('-SKIP'):
                dirs = [D.Directive('SKIP', False, [], False)]
            elif e.endswith('REQUIRES'):
                dirs = [D.Directive('REQUIRES', True, [ARG_UNMET], e.startswith('inline'))]
            elif e == 'bad_directive':
                dirs = [D.Directive('REQUIRES', True, ['badflag:x'], True)]
            if e in ('want_ok', 'want_bad'):
                want = ['w']
            if e == 'expected_exception':
                want = ['Traceback (most recent call last):', 'HarnessExc: harness exception of part %d' % idx]
            src = ('x = 1 #%d#' if code else '# comment #%d#') % idx
            parts.append(P([src], want_lines=want, line_offset=i, orig_lines=['>>> ' + src], directives=dirs))

            def beh(code_, glb, e=e, idx=idx):
                if e == 'want_ok':
                    E.cap.write('w')
                elif e == 'want_bad':
                    E.cap.write('x')
                elif e in ('raise', 'expected_exception'):
                    hrun.raise_in_doctest_frame(code_, hrun.HarnessExc(idx))
                elif e == 'exit_test':
                    raise m['exceptions'].ExitTestException()
                elif e == 'pytest_skip_in_body':
                    import pytest as _pt
                    raise _pt.skip.Exception('skipped from inside the doctest')
            E.behaviour[idx] = beh
        dt = m['doctest_example'].DocTest(head + '>>> x = 1\n', None, 'f', 0, 1, mode=mode)
        dt.config['colored'] = False
        dt._parts = parts
        return dt

    def run(self, ex):
        import pytest
        from sea.core import SymInt
        E = hrun.ENV
        E.reset()
        evs = [EVENTS[int(SymInt(v))] for v in self.ev]
        head = HEADS[int(SymInt(self.head))]
        cidx = [i for i, e in enumerate(evs) if e == 'compile_error']

        def hook(idx, mode, filename):
            if idx % 100 in cidx:
                raise SyntaxError("'return' outside function", (filename, 1, 1, 'return 1'))
            return None
        E.compile_hook = hook
        # --- pytest front end
        dt_p = self.build(evs, head, 'pytest', 0)

        class Item:
            dtest = dt_p
        try:
            self.plugin.XDoctestItem.runtest(Item())
            cls_p = 'passed'
        except pytest.skip.Exception:
            cls_p = 'skipped'
        except Exception:
            cls_p = 'failed'
        trace_p = [t % 100 for t in E.trace]
        # --- native front end
        E.trace = []
        dt_n = self.build(evs, head, 'native', 100)
        omitted = dt_n.is_disabled()          # the native runner leaves force-disabled doctests out of `all`
        logs = []
        try:
            rs = self.runner._run_examples([] if omitted else [dt_n], 0, config={'colored': False}, _log=lambda *a: logs.append(a))
            if omitted:
                cls_n = 'omitted'
            else:
                cls_n = 'failed' if rs['n_failed'] else ('skipped' if rs['n_skipped'] else ('passed' if rs['n_passed'] else '?'))
        except Exception as e:
            cls_n = 'raised:' + type(e).__name__
        trace_n = [t % 100 for t in E.trace]
        props = {}
        if omitted:
            props['force_disabled_is_skipped_in_pytest'] = z3.BoolVal(cls_p == 'skipped')
            ex.witness('force_disabled', True)
            return props
        if head:
            # disabled only for pytest (pytest.skip marker): skipped there, run natively
            props['pytest_only_marker_is_skipped'] = z3.BoolVal(cls_p == 'skipped')
            return props
        props['same_outcome_class'] = z3.BoolVal(cls_p == cls_n)
        props['same_statements_executed'] = z3.BoolVal(trace_p == trace_n)
        self.last = (evs, cls_p, cls_n)
        if cls_p == cls_n == 'skipped':
            ex.witness('both_skipped', True)
        if cls_p == cls_n == 'failed':
            ex.witness('both_failed', True)
        if cls_p == cls_n == 'passed':
            ex.witness('both_passed', True)
        if evs[0] == 'exit_test':
            ex.witness('exit_test_first', True)
        return props

    def describe(self, model):
        def n(v):
            return model.eval(v, model_completion=True).as_long()
        return {'harness': 'diff', 'events': [EVENTS[n(v)] for v in self.ev], 'head': HEADS[n(self.head)]}


OPTS = ['', '+SKIP', '-ELLIPSIS', '+IGNORE_WANT,-NORMALIZE_WHITESPACE', '+REQUIRES(env:XDV_C15_UNMET==1)', 'ELLIPSIS']


class Opts(Harness):
    witnesses = ('non_empty_options',)

    def __init__(self, job):
        from .common import instrumented
        instrumented()
        from xdoctest import plugin, doctest_example
        self.plugin, self.de = plugin, doctest_example
        self.o = z3.Int('options')
        self.colored = z3.Bool('colored')
        self.verbose = z3.Int('verbose')
        self.rc = z3.Int('reportchoice')
        self.off = z3.Bool('offset_linenos')
        self.base = [self.o >= 0, self.o < len(OPTS), self.verbose >= 0, self.verbose <= 3, self.rc >= 0, self.rc <= 2]

    def run(self, ex):
        from sea.core import SymBool, SymInt
        vals = {'options': OPTS[int(SymInt(self.o))], 'colored': bool(SymBool(self.colored)), 'verbose': int(SymInt(self.verbose)),
                'reportchoice': ['udiff', 'ndiff', 'cdiff'][int(SymInt(self.rc))], 'offset_linenos': bool(SymBool(self.off)),
                'global_exec': None, 'supress_import_errors': False}

        class PytestConfig:
            def getvalue(self, name):
                assert name.startswith('xdoctest_')
                return vals[name[len('xdoctest_'):]]

        class FakeModule:
            config = PytestConfig()
        fm = FakeModule()
        self.plugin._XDoctestBase._prepare_internal_config(fm)
        conf_pytest = fm._examp_conf
        conf_native = self.de.DoctestConfig()._populate_from_cli(dict(vals))
        ex.witness('non_empty_options', z3.BoolVal(bool(vals['options'])))
        return {'same_example_config': z3.BoolVal(conf_pytest == conf_native)}

    def describe(self, model):
        return {'harness': 'opts', 'options': OPTS[model.eval(self.o, model_completion=True).as_long()]}


def build(job):
    return Diff(job) if job['harness'] == 'diff' else Opts(job)


# ---------------------------------------------------------------- replay: a real module through both real front ends

def replay(job, cex):
    import os
    import re
    import shutil
    import subprocess
    import sys
    import tempfile
    if cex['harness'] != 'diff':
        return {'reproduced': False, 'abstract': True, 'detail': 'option plumbing: no end-to-end replay'}
    os.environ.pop('XDV_C15_UNMET', None)
    lines = []
    if cex['head']:
        lines.append(cex['head'].rstrip('\n'))
    for i, e in enumerate(cex['events']):
        if e == 'plain':
            lines += ['>>> x%d = %d' % (i, i), '']
        elif e == 'want_ok':
            lines += ['>>> print("w")', 'w']
        elif e == 'want_bad':
            lines += ['>>> print("x")', 'w']
        elif e == 'raise':
            lines += ['>>> raise KeyError("boom")', '']
        elif e == 'expected_exception':
            lines += ['>>> raise KeyError("boom")', 'Traceback (most recent call last):', "KeyError: 'boom'"]
        elif e == 'exit_test':
            lines += ['>>> import xdoctest', '>>> raise xdoctest.ExitTestException()', '']
        elif e == 'pytest_skip_in_body':
            lines += ['>>> import pytest', '>>> pytest.skip("from the body")', '']
        elif e == 'comment':
            lines += ['>>> # just a comment', '']
        elif e == 'bad_directive':
            lines += ['>>> y = 0  # xdoctest: +REQUIRES(badflag:x)', '']
        elif e == 'compile_error':
            lines += ['>>> return 1', '']
        else:
            kind, name = ('block', e[5:]) if e.startswith('block') else ('inline', e[6:])
            arg = '(%s)' % ARG_UNMET if name.endswith('REQUIRES') else ''
            lines += ['>>> # xdoctest: %s%s' % (name, arg)] if kind == 'block' else ['>>> y = 0  # xdoctest: %s%s' % (name, arg), '']
    d = tempfile.mkdtemp(prefix='xdv-c15-')
    try:
        src = 'def f():\n    """\n    Example:\n' + ''.join(('        %s\n' % l) if l else '\n' for l in lines) + '    """\n'
        path = os.path.join(d, 'm_c15_replay.py')
        with open(path, 'w') as f:
            f.write(src)
        env = dict(os.environ, PYTHONPATH=os.pathsep.join(sys.path), NO_COLOR='1')
        pn = subprocess.run([sys.executable, '-m', 'xdoctest', path, 'all'], capture_output=True, text=True, env=env, cwd=d)
        pp = subprocess.run([sys.executable, '-m', 'pytest', '-p', 'no:cacheprovider', '-p', 'no:doctest', '--xdoctest', '-rA', '-q', path], capture_output=True, text=True, env=env, cwd=d)

        def native_class(out):
            m = re.search(r'=== (.*?) in ', out)
            if not m:
                return 'none' if 'no docstrings' in out or 'running 0 test' in out else 'unknown'
            s = m.group(1)
            return 'failed' if 'failed' in s else ('passed' if 'passed' in s else ('skipped' if 'skipped' in s else 'unknown'))

        def pytest_class(out):
            tail = out.strip().splitlines()[-1] if out.strip() else ''
            return 'failed' if ('failed' in tail or 'error' in tail) else ('passed' if 'passed' in tail else ('skipped' if 'skipped' in tail else 'none'))
        cn, cp = native_class(pn.stdout), pytest_class(pp.stdout)
        if cex['head']:
            bad = cp != 'skipped'
        else:
            bad = cn != cp or ((pn.returncode != 0) != (cp == 'failed'))
        return {'reproduced': bad, 'detail': 'module %r: native=%s (exit %d) pytest=%s (exit %d)' % (src, cn, pn.returncode, cp, pp.returncode),
                'signature': 'C15:diff:%s/%s' % (cn, cp)}
    finally:
        shutil.rmtree(d, ignore_errors=True)
