"""C13 - parsing partitions the docstring: each line is text, source or want, once.
(also the machinery of C14 and of the chunk obligations of C01 / C04)

symbolic_lines   DoctestParser.parse with all three phases (_label_docsrc_lines,
                 _complete_source, _group_labeled_lines, _package_groups,
                 _package_chunk, _min_indentation, tab expansion) executed on k
                 SYMBOLIC lines (bounded strings over {space, '>', '.', a}).  CPython's tokenizer / ast are replaced by oracles that
                 may give EVERY answer: is_balanced_statement -> a fresh Boolean
                 per call, _locate_ps1_linenos -> any sorted subset of the
                 '>>> ' lines containing the first one and any mode hint,
                 Directive.extract -> nothing.
structured_real  the REAL parser including the real tokenizer and ast on
                 docstrings assembled from a menu of concrete line tokens with
                 symbolic choice of token and indentation per line (enumeration
                 through the explorer: links the oracles to CPython).

Oracle (from the statement): the string parts and the parts' source + want
lines, in order, are exactly the preprocessed lines (tab-expanded with the
column rule, common indentation removed), each once; every part's line_offset
is the index of its first line; and the local labelling rules the statement
fixes (blank -> text; prompt after text / want -> source; non-prompt after
text -> text; non-blank, not de-indented, non-prompt line after source or want
-> want; de-indented line after want -> text).  Where the statement is silent
(a prompt at another indentation directly after source) nothing is asserted.
"""
import z3
from .common import Harness, zbool, instrumented

PROPERTY = 'C13'
ALPH = ' >.a'
BOUNDS = {'quick': 'symbolic_lines: 2 lines x <=6 characters over {space, tab, >, ., a, #}; structured_real: 3 lines from a menu of 12 tokens (two with tabs) x 2 indentations',
          'thorough': 'symbolic_lines: 3 lines x <=5 characters; structured_real: 3 lines over all 12 tokens and 4 lines over 6 tokens'}
OUTSIDE = 'whether the tokenizer\'s balance verdict / ast statement boundaries are right (they are oracles that may answer anything); triple-quote repair (no quote characters in the alphabet); non-ASCII'
ASSUMPTIONS = ['lines contain no line-break characters', 'symbolic_lines: no tab characters (tab expansion is exercised by structured_real with tab tokens)', 'no quote characters (the HACK_TRIPLE_QUOTE_FIX rewrite of an unprefixed line inside a triple-quoted string is outside)',
               'Directive.extract -> no directives (directive breaks are the chunk obligation of C01/C04)']

TOKENS = ['', '>>> x = 1', '>>> y = (', '... 2)', '...', 'w', '>>>', '>>> # c', '>>>x', '  more', '\t>>> z = 3', 'a\tb']
INDENTS = [0, 2]


def jobs(tier):
    q = tier == 'quick'
    return [{'ob': 'symbolic_lines', 'harness': 'sym', 'k': 2 if q else 3, 'cap': 6 if q else 5, 'splits': [3, 6, 9, 12, 15],
             'query_timeout_s': 120 if q else 600, 'job_timeout_s': 900 if q else 3000,
             'bounds': '%d lines x <=%d chars over %r' % (2 if q else 3, 6 if q else 5, ALPH)},
            {'ob': 'structured_real', 'harness': 'real', 'k': 3, 'skip_tokens': [7, 8] if q else [], 'splits': [2, 4, 6, 8], 'query_timeout_s': 60,
             'bounds': '3 lines, %d tokens x %d indentations, real tokenizer and ast' % (len(TOKENS) - (2 if q else 0), len(INDENTS))}] + ([] if q else [
            {'ob': 'structured_real', 'harness': 'real', 'k': 4, 'skip_tokens': [4, 6, 7, 8, 10, 11], 'splits': [2, 4, 6, 8], 'query_timeout_s': 60, 'job_timeout_s': 3000,
             'bounds': '4 lines, 6 tokens (blank, statement, open bracket, continuation, want, deeper text) x %d indentations, real tokenizer and ast' % len(INDENTS)}])


# ---------------------------------------------------------------- shared oracle

def leading(s):
    """(number of leading spaces, is blank) of a SymStr / str line as z3 terms"""
    from sea.symstr import SymStr
    s = SymStr.of(s)
    n = s.nz()
    ind = z3.IntVal(0)
    run = z3.BoolVal(True)
    for k in range(s.cap):
        run = z3.And(run, k < n, s.cs[k] == 32)
        ind = ind + z3.If(run, 1, 0)
    from sea.symstr import _isws
    blank = z3.And([z3.Or(k >= n, _isws(s.cs[k])) for k in range(s.cap)] + [z3.BoolVal(True)])
    return ind, blank


def is_prompt(s, p):
    """stripped line == p or starts with p + ' ' (p = '>>>' / '...')"""
    from sea.symstr import SymStr
    t = SymStr.of(s).strip()
    return z3.Or(zbool(t == p), zbool(t.startswith(p + ' ')))


def flatten(parts):
    """-> [(label, line, part)] from the parser output"""
    from sea.symstr import JoinedLines, SymStr
    out = []
    for p in parts:
        if isinstance(p, JoinedLines):
            out += [('text', l, None) for l in p.lines]
        elif isinstance(p, (str, SymStr)):
            c = p if isinstance(p, str) else p.const()
            if c is None:
                raise AssertionError('text part is not a list of lines')
            out += [('text', l, None) for l in c.split('\n')]
        else:
            out += [('source', l, p) for l in p.orig_lines]
            out += [('want', l, p) for l in (p.want_lines or [])]
    return out


def partition_props(parts, pre, consumed=()):
    """pre: the expected preprocessed lines.  -> dict of z3 Bools"""
    flat = flatten(parts)
    props = {}
    # source / want lines are stored without the indentation of their example
    # block (the indentation of the block's first prompt line)
    from sea.core import SymInt
    labels0 = [f[0] for f in flat]
    eqs = [z3.BoolVal(len(flat) == len(pre))]
    if len(flat) == len(pre):
        for i, (f, b) in enumerate(zip(flat, pre)):
            if f[0] == 'text':
                eqs.append(zbool(f[1] == b))
                continue
            k = i
            while k >= 0 and labels0[k] == 'want':
                k -= 1
            while k > 0 and labels0[k - 1] == 'source':
                k -= 1
            cind = z3.simplify(leading(pre[max(k, 0)])[0])
            cut = b[cind.as_long():] if z3.is_int_value(cind) else b[SymInt(cind):]
            eqs.append(zbool(f[1] == cut))
    props['every_line_once_in_order'] = z3.And(eqs)
    offs = []
    idx = 0
    for p in parts:
        from sea.symstr import JoinedLines, SymStr
        if isinstance(p, JoinedLines):
            idx += len(p.lines)
        elif isinstance(p, (str, SymStr)):
            idx += len((p if isinstance(p, str) else p.const()).split('\n'))
        else:
            offs.append(z3.BoolVal(p.line_offset == idx))
            idx += len(p.orig_lines) + len(p.want_lines or [])
    props['line_offset_is_index_of_first_line'] = z3.And(offs) if offs else z3.BoolVal(True)
    # local labelling rules
    rules = []
    labels = [f[0] for f in flat]
    if len(flat) == len(pre):
        info = [leading(l) + (is_prompt(l, '>>>'),) for l in pre]
        for i, lab in enumerate(labels):
            ind, blank, ps1 = info[i]
            prev = labels[i - 1] if i else 'text'
            if i in consumed:
                continue       # swallowed while completing an unbalanced statement: source by the statement's rule
            if prev == 'text':
                rules.append(z3.Implies(ps1, z3.BoolVal(lab == 'source')))
                rules.append(z3.Implies(z3.Not(ps1), z3.BoolVal(lab == 'text')))
            elif prev == 'want':
                rules.append(z3.Implies(blank, z3.BoolVal(lab == 'text')))
                rules.append(z3.Implies(z3.And(z3.Not(blank), ps1), z3.BoolVal(lab == 'source')))
                # the want started after a source block: find its indentation
                j = i - 1
                while j >= 0 and labels[j] == 'want':
                    j -= 1
                k = j
                while k > 0 and labels[k - 1] == 'source' and (k - 1) not in ():
                    k -= 1
                if j >= 0 and labels[j] == 'source':
                    sind = info[k][0]
                    rules.append(z3.Implies(z3.And(z3.Not(blank), z3.Not(ps1), ind >= sind), z3.BoolVal(lab == 'want')))
                    rules.append(z3.Implies(z3.And(z3.Not(blank), z3.Not(ps1), ind < sind), z3.BoolVal(lab == 'text')))
            else:  # previous line is source
                rules.append(z3.Implies(blank, z3.BoolVal(lab == 'text')))
                k = i - 1
                while k > 0 and labels[k - 1] == 'source':
                    k -= 1
                sind = info[k][0]
                ps2 = is_prompt(pre[i], '...')
                rules.append(z3.Implies(z3.And(z3.Not(blank), z3.Not(ps1), z3.Not(ps2), ind >= sind), z3.BoolVal(lab == 'want')))
                rules.append(z3.Implies(z3.And(z3.Not(blank), ind < sind, z3.Not(ps1)), z3.BoolVal(lab == 'text')))
    props['labelling_rules'] = z3.And(rules) if rules else z3.BoolVal(True)
    return props


# ---------------------------------------------------------------- symbolic lines

class SymLines(Harness):
    witnesses = ('source_then_want', 'continuation_consumed', 'text_only', 'parse_error')
    raising = False

    def __init__(self, job):
        instrumented()
        from sea.symstr import SymStr, sym_join
        from xdoctest import parser, static_analysis, directive, exceptions
        self.parser, self.static, self.exceptions = parser, static_analysis, exceptions
        self.job = job
        K = self.K = job['k']
        self.lines = []
        self.base = []
        for i in range(K):
            l, c = SymStr.fresh('line%d' % i, job['cap'], ALPH)
            self.lines.append(l)
            self.base += c
        sym_join.lines_mode = True
        directive.Directive.extract = classmethod(lambda cls, text: iter(()))
        self.calls = 0
        self.stubs = ['static.is_balanced_statement -> fresh Boolean per call (any tokenizer verdict)',
                      'DoctestParser._locate_ps1_linenos -> any sorted subset of the ">>> " lines containing line 0, any mode hint',
                      'Directive.extract -> nothing']
        harness = self

        def balance(parts, only_tokens=False, reraise=0):
            harness.calls += 1
            return self.balance_answer(harness.calls)
        static_analysis.is_balanced_statement = balance

        def locate(self_, source_lines):
            return harness.locate_answer(source_lines)
        parser.DoctestParser._locate_ps1_linenos = locate
        real_cs = parser._complete_source

        def recording(line, state_indent, line_iter):
            def tap():
                for item in line_iter:
                    harness.consumed_lines.append(item[0])     # index of a line swallowed to complete a statement
                    yield item
            for item in real_cs(line, state_indent, tap()):
                yield item
        parser._complete_source = recording

    def balance_answer(self, n):
        from sea.core import SymBool
        return bool(SymBool(z3.Bool('balanced_call_%d' % n)))

    def locate_answer(self, source_lines):
        from sea.core import SymBool, SymInt
        self.nloc += 1
        ps1 = [0]
        for i in range(1, len(source_lines)):
            isps1 = source_lines[i][:4] == '>>> '
            if bool(isps1) and bool(SymBool(z3.Bool('stmt_boundary_%d_%d' % (self.nloc, i)))):
                ps1.append(i)
        mode = ['exec', 'eval', 'single'][int(SymInt(z3.Int('mode_hint_%d' % self.nloc)))]
        return ps1, mode

    def preprocess(self):
        """expected preprocessed lines, independent of parse()"""
        exp = [l.expandtabs() for l in self.lines]
        info = [leading(l) for l in exp]
        m = None
        anyc = z3.BoolVal(False)
        for ind, blank in info:
            cand = z3.If(blank, z3.IntVal(10 ** 6), ind)
            m = cand if m is None else z3.If(cand < m, cand, m)
        m = z3.If(m >= 10 ** 6, 0, m)
        from sea.core import SymInt
        m = z3.simplify(m)
        return [l[SymInt(m):] if not z3.is_int_value(m) else l[m.as_long():] for l in exp], exp

    def run(self, ex):
        from sea.symstr import JoinedLines
        self.calls = 0
        self.nloc = 0
        self.consumed_lines = []
        for v in []:
            pass
        ex.assume(z3.And([z3.And(z3.Int('mode_hint_%d' % j) >= 0, z3.Int('mode_hint_%d' % j) <= 2) for j in range(1, self.K + 1)]))
        P = self.parser.DoctestParser()
        try:
            parts = P.parse(JoinedLines(self.lines))
        except self.exceptions.DoctestParseError:
            ex.witness('parse_error', True)
            return {'only_the_parse_error_escapes': z3.BoolVal(True)}
        except Exception as e:
            self.last_error = '%s: %s' % (type(e).__name__, e)
            return {'only_the_parse_error_escapes': z3.BoolVal(False)}
        pre, exp = self.preprocess()
        flat = flatten(parts)
        consumed = list(self.consumed_lines)
        props = partition_props(parts, pre, consumed)
        props['no_tab_reaches_the_parts'] = z3.And([z3.Not(zbool(f[1].contains('\t'))) for f in flat] + [z3.BoolVal(True)])
        labels = [f[0] for f in flat]
        if 'want' in labels and 'source' in labels:
            ex.witness('source_then_want', True)
        if consumed:
            ex.witness('continuation_consumed', True)
        if all(x == 'text' for x in labels):
            ex.witness('text_only', True)
        return props

    def describe(self, model):
        d = {'harness': 'sym', 'lines': [l.concrete(model) for l in self.lines]}
        d['balance_answers'] = [z3.is_true(model.eval(z3.Bool('balanced_call_%d' % n), model_completion=True)) for n in range(1, 8)]
        return d


# ---------------------------------------------------------------- structured, real tokenizer / ast

class Real(Harness):
    witnesses = ('multi_line_statement', 'want_after_source', 'text_between', 'parse_error', 'tab_indented_prompt')

    def __init__(self, job):
        instrumented()
        from xdoctest import parser, exceptions
        self.parser, self.exceptions = parser, exceptions
        self.job = job
        K = self.K = job['k']
        self.tok = [z3.Int('token%d' % i) for i in range(K)]
        self.ind = [z3.Int('indent%d' % i) for i in range(K)]
        self.base = []
        for i in range(K):
            self.base += [self.tok[i] >= 0, self.tok[i] < len(TOKENS), self.ind[i] >= 0, self.ind[i] < len(INDENTS)]
            self.base += [self.tok[i] != t for t in job.get('skip_tokens', [])]

    def run(self, ex):
        from sea.core import SymInt
        lines = []
        for i in range(self.K):
            t = TOKENS[int(SymInt(self.tok[i]))]
            lines.append((' ' * INDENTS[int(SymInt(self.ind[i]))] + t) if t else '')
        doc = '\n'.join(lines)
        lines = doc.splitlines()        # (a trailing empty line is not a line of the text)
        while lines and not lines[-1].strip():
            lines.pop()                 # trailing blank lines carry nothing (re-joining drops the last one)
        doc = '\n'.join(lines)
        try:
            parts = self.parser.DoctestParser().parse(doc)
        except self.exceptions.DoctestParseError:
            ex.witness('parse_error', True)
            return {'only_the_parse_error_escapes': z3.BoolVal(True)}
        except Exception as e:
            self.last_error = '%s: %s' % (type(e).__name__, e)
            return {'only_the_parse_error_escapes': z3.BoolVal(False)}
        exp = [l.expandtabs() for l in lines]
        nonblank = [l for l in exp if l.strip()]
        m = min((len(l) - len(l.lstrip(' ')) for l in nonblank), default=0)
        pre = [l[m:] for l in exp]
        flat = flatten(parts)
        # lines swallowed while completing a multi-line statement: everything in
        # a source block after a line that leaves brackets open (real tokenizer)
        consumed = []
        from xdoctest import static_analysis as static
        labels = [f[0] for f in flat]
        i = 0
        while i < len(flat):
            if labels[i] == 'source':
                j = i
                buf = [str(flat[i][1]).lstrip()[4:]]
                while j + 1 < len(flat) and labels[j + 1] == 'source' and not static.is_balanced_statement(buf, only_tokens=True):
                    j += 1
                    consumed.append(j)
                    buf.append(str(flat[j][1]).lstrip()[4:])
                i = j + 1
            else:
                i += 1
        props = partition_props(parts, pre, consumed)
        if consumed:
            ex.witness('multi_line_statement', True)
        if any(a == 'source' and b == 'want' for a, b in zip(labels, labels[1:])):
            ex.witness('want_after_source', True)
        for a in range(1, len(flat)):
            if labels[a - 1] == 'want' and labels[a] == 'source' and pre[a][:1] == ' ':
                ex.witness('prompt_after_want_other_indent', True)
        if 'text' in labels and 'source' in labels:
            ex.witness('text_between', True)
        if any(l.lstrip(' ').startswith('\t>>>') for l in lines) and 'source' in labels:
            ex.witness('tab_indented_prompt', True)
        return props

    def describe(self, model):
        def n(v):
            return model.eval(v, model_completion=True).as_long()
        lines = []
        for i in range(self.K):
            t = TOKENS[n(self.tok[i])]
            lines.append((' ' * INDENTS[n(self.ind[i])] + t) if t else '')
        return {'harness': 'real', 'lines': lines}


def build(job):
    return SymLines(job) if job['harness'] == 'sym' else Real(job)


# ---------------------------------------------------------------- replay on the uninstrumented parser

def py_reference(lines, parts):
    """python version of partition + labelling rules on concrete lines; returns list of problems"""
    from xdoctest import static_analysis as static
    exp = [l.expandtabs() for l in lines]
    nonblank = [l for l in exp if l.strip()]
    m = min((len(l) - len(l.lstrip(' ')) for l in nonblank), default=0)
    pre = [l[m:] for l in exp]
    flat = []
    bad = []
    idx = 0
    for p in parts:
        if isinstance(p, str):
            ls = p.split('\n')
            flat += [('text', l) for l in ls]
            idx += len(ls)
        else:
            if p.line_offset != idx:
                bad.append('line_offset')
            flat += [('source', l) for l in p.orig_lines] + [('want', l) for l in (p.want_lines or [])]
            idx += len(p.orig_lines) + len(p.want_lines or [])
    labels = [f[0] for f in flat]
    ok = len(flat) == len(pre)
    if ok:
        for i, (f, b) in enumerate(zip(flat, pre)):
            if f[0] == 'text':
                ok = ok and f[1] == b
                continue
            k = i
            while k >= 0 and labels[k] == 'want':
                k -= 1
            while k > 0 and labels[k - 1] == 'source':
                k -= 1
            cind = len(pre[max(k, 0)]) - len(pre[max(k, 0)].lstrip(' '))
            ok = ok and f[1] == b[cind:]
    if not ok:
        bad.append('partition')
        return bad, flat, pre

    def ps(l, p):
        t = l.strip()
        return t == p or t.startswith(p + ' ')
    consumed = set()
    i = 0
    while i < len(flat):
        if labels[i] == 'source':
            j = i
            buf = [flat[i][1].lstrip()[4:]]
            try:
                while j + 1 < len(flat) and labels[j + 1] == 'source' and not static.is_balanced_statement(buf, only_tokens=True):
                    j += 1
                    consumed.add(j)
                    buf.append(flat[j][1].lstrip()[4:])
            except Exception:
                pass
            i = j + 1
        else:
            i += 1
    for i, lab in enumerate(labels):
        if i in consumed:
            continue
        l = pre[i]
        blank = not l.strip()
        ind = len(l) - len(l.lstrip(' '))
        prev = labels[i - 1] if i else 'text'
        if prev == 'text':
            want_lab = 'source' if ps(l, '>>>') else 'text'
            if lab != want_lab:
                bad.append('label:%d:%s!=%s' % (i, lab, want_lab))
        else:
            k = i - 1
            while k >= 0 and labels[k] == 'want':
                k -= 1
            while k > 0 and labels[k - 1] == 'source':
                k -= 1
            sind = len(pre[k]) - len(pre[k].lstrip(' ')) if k >= 0 else 0
            if blank:
                if lab != 'text':
                    bad.append('label:%d:blank-not-text' % i)
            elif prev == 'want' and ps(l, '>>>'):
                if lab != 'source':
                    bad.append('label:%d:prompt-after-want-not-source' % i)
            elif not ps(l, '>>>') and not (prev == 'source' and ps(l, '...')):
                want_lab = 'want' if ind >= sind else 'text'
                if lab != want_lab:
                    bad.append('label:%d:%s!=%s' % (i, lab, want_lab))
    return bad, flat, pre


def replay(job, cex):
    from xdoctest import parser, exceptions
    lines = cex['lines']
    if cex.get('harness') == 'sym':
        # the oracle answers are part of the counterexample: only reproducible when the
        # real tokenizer agrees; try the real parser and compare with the reference
        pass
    doc = '\n'.join(lines)
    lines = doc.splitlines()
    while lines and not lines[-1].strip():
        lines.pop()
    doc = '\n'.join(lines)
    try:
        parts = parser.DoctestParser().parse(doc)
    except exceptions.DoctestParseError as e:
        return {'reproduced': False, 'abstract': cex.get('harness') == 'sym', 'detail': 'real parser raises DoctestParseError for %r (%s)' % (doc, e.orig_ex)}
    except Exception as e:
        return {'reproduced': True, 'detail': 'parse(%r) raised %s: %s' % (doc, type(e).__name__, e), 'signature': 'C13:escapes:' + type(e).__name__}
    bad, flat, pre = py_reference(lines, parts)
    if not bad and cex.get('harness') == 'sym':
        return {'reproduced': False, 'abstract': True, 'detail': 'holds for %r with the real tokenizer answers; the symbolic counterexample needs other oracle answers' % doc}
    return {'reproduced': bool(bad), 'detail': 'docstring %r: %s; parts=%r expected lines=%r' % (doc, bad, flat, pre),
            'signature': 'C13:' + ','.join(sorted(set(b.split(':')[0] + (':' + b.split(':')[2] if b.count(':') >= 2 else '') for b in bad)))}
